#!/usr/bin/env python3
"""Parallel variant of sweep_seeds.py: every seeded change is applied in its own scratch worktree of /repo (under /tmp, removed
afterwards) and the checks are pointed at it with XV_REPO, so /repo itself is never touched and several seeds run at once.
Writes seeded/RESULTS.json (which checks catch which change) - the table in DESIGN.md section 11.5 is generated from it.

usage: sweep_par.py [-j N] [--all-props] [seed-id ...]       (default: all seeds, the seed's own property + related ones)"""
import json, os, subprocess, sys, time, shutil
from concurrent.futures import ThreadPoolExecutor
V = os.path.dirname(os.path.dirname(os.path.abspath(__file__)))
EXTRA = {'C04-4': ['C05'], 'C13-1': ['C12'], 'C13-2': ['C03'], 'C15-2': ['C20'], 'C14-2': ['C17'], 'C08-2': ['C17'], 'C16-2': ['C12'], 'C19-1': ['C05'], 'C19-2': ['C03', 'C05'],
         'C17-2': ['C01'], 'C12-2': ['C13']}
args = sys.argv[1:]
J = 3
if '-j' in args:
    i = args.index('-j'); J = int(args[i + 1]); del args[i:i + 2]
claimed = {c['property_id'] for c in json.load(open(V + '/MANIFEST.json'))['checks']}
ids = args or sorted(d for d in os.listdir(V + '/seeded') if os.path.isdir(V + '/seeded/' + d))
resf = os.environ.get('XV_SWEEP_RESULTS') or V + '/seeded/RESULTS.json'
res = json.load(open(resf)) if os.path.exists(resf) else {}


def one(sid):
    d = V + '/seeded/' + sid
    meta = json.load(open(d + '/meta.json'))
    props = [meta['property']] + [p for p in EXTRA.get(sid, []) + meta.get('also_check', []) if p != meta['property']]
    wt = '/tmp/sw_' + sid
    subprocess.call(['git', '-C', '/repo', 'worktree', 'remove', '--force', wt], stderr=subprocess.DEVNULL)
    shutil.rmtree(wt, ignore_errors=True)
    if subprocess.call(['git', '-C', '/repo', 'worktree', 'add', '--detach', wt, 'HEAD'], stdout=subprocess.DEVNULL, stderr=subprocess.DEVNULL) != 0:
        return sid, {'error': 'cannot create worktree'}
    try:
        if subprocess.call(['git', '-C', wt, 'apply', d + '/patch.diff']) != 0:
            return sid, {'error': 'patch does not apply to /repo HEAD'}
        out = {}
        for p in props:
            if p not in claimed:
                out[p] = {'caught': False, 'note': 'property not claimed'}; continue
            t0 = time.time()
            evd = '/tmp/sw_ev_' + sid
            q = subprocess.run(['./check', p, '--tier', 'quick'], cwd=V, capture_output=True, text=True,
                               env=dict(os.environ, XV_EVIDENCE_DIR=evd, XV_REPO=wt, XV_REPLAY_ROOT='/tmp/sw_rp_' + sid))
            shutil.rmtree(evd, ignore_errors=True); shutil.rmtree('/tmp/sw_rp_' + sid, ignore_errors=True)
            viol = [l for l in q.stdout.split('\n') if l.startswith('VIOLATION')]
            out[p] = {'exit': q.returncode, 'violation_lines': len(viol), 'caught': q.returncode == 1 and len(viol) > 0, 'first': (viol[0][:300] if viol else ''),
                      'summary': (q.stdout.strip().split('\n')[-1][:300] if q.stdout.strip() else ''), 'stderr_tail': q.stderr[-300:] if q.returncode not in (0, 1) else '',
                      'seconds': round(time.time() - t0, 1)}
            print(sid, p, 'exit', q.returncode, 'violations', len(viol), '%.0fs' % (time.time() - t0), flush=True)
        return sid, {'property': meta['property'], 'checks': out, 'caught_by': [p for p, r in out.items() if r.get('caught')]}
    finally:
        subprocess.call(['git', '-C', '/repo', 'worktree', 'remove', '--force', wt], stdout=subprocess.DEVNULL, stderr=subprocess.DEVNULL)
        shutil.rmtree(wt, ignore_errors=True)


with ThreadPoolExecutor(J) as tp:
    for sid, r in tp.map(one, ids):
        res[sid] = r
        json.dump(res, open(resf, 'w'), indent=1, sort_keys=True)
missed = [s for s in ids if not res[s].get('caught_by')]
print('done; not caught:', missed)
