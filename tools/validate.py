#!/usr/bin/env python3
"""validates MANIFEST.json and every evidence file against the schemas in /root/.vp (run with python3-vt)"""
import json, glob, sys, os, jsonschema
V = os.path.dirname(os.path.dirname(os.path.abspath(__file__)))
bad = 0
try:
    jsonschema.validate(json.load(open(V + '/MANIFEST.json')), json.load(open('/root/.vp/MANIFEST.schema.json'))); print('MANIFEST ok')
except Exception as e:
    print('MANIFEST INVALID', str(e)[:500]); bad = 1
es = json.load(open('/root/.vp/EVIDENCE.schema.json'))
for f in sorted(glob.glob(V + '/evidence/*.json')):
    try:
        jsonschema.validate(json.load(open(f)), es); print(os.path.basename(f), 'ok')
    except Exception as e:
        print(os.path.basename(f), 'INVALID', str(e)[:400]); bad = 1
sys.exit(bad)
