#!/bin/bash
# try_seed.sh <patch.diff> <property> [XV_ONLY regex]: apply a seeded change to /repo, run the property's quick check, undo the change
patch=$1; prop=$2; only=$3
cd /repo || exit 2
git diff --quiet -- include || { echo "/repo has uncommitted changes"; exit 2; }
git apply "$patch" || { echo "patch does not apply"; exit 2; }
cd /verif
if [ -n "$only" ]; then XV_ONLY="$only" ./check $prop --tier quick; else ./check $prop --tier quick; fi > /tmp/try_seed.out 2>&1
rc=$?
git -C /repo checkout -- .
grep -c VIOLATION /tmp/try_seed.out | sed 's/^/violation lines: /'
grep VIOLATION /tmp/try_seed.out | head -3 | cut -c1-260
tail -1 /tmp/try_seed.out | cut -c1-250
echo "exit=$rc"
