#!/usr/bin/env python3
"""Runs the registered quick checks against every seeded change in /verif/seeded: apply the patch to /repo, run the check(s) of the
property it breaks (plus related ones), undo the patch.  Nothing else may use /repo while this runs.  Writes seeded/RESULTS.json
(which checks catch which change) - the table in DESIGN.md section 11 is generated from it.

usage: sweep_seeds.py [seed-id ...]       (default: all)"""
import json, os, subprocess, sys, time, re
V = os.path.dirname(os.path.dirname(os.path.abspath(__file__)))
EXTRA = {'C13-1': ['C12'], 'C13-2': ['C03'], 'C15-2': ['C20'], 'C14-2': ['C17'], 'C08-2': ['C17'], 'C16-2': ['C12'], 'C19-1': ['C05'], 'C19-2': ['C03', 'C05'],
         'C17-2': ['C01'], 'C12-2': ['C13']}
claimed = {c['property_id'] for c in json.load(open(V + '/MANIFEST.json'))['checks']}
ids = sys.argv[1:] or sorted(d for d in os.listdir(V + '/seeded') if os.path.isdir(V + '/seeded/' + d))
resf = V + '/seeded/RESULTS.json'
res = json.load(open(resf)) if os.path.exists(resf) else {}
for sid in ids:
    d = V + '/seeded/' + sid
    meta = json.load(open(d + '/meta.json'))
    props = [meta['property']] + EXTRA.get(sid, [])
    if subprocess.call(['git', '-C', '/repo', 'diff', '--quiet', '--', 'include']) != 0:
        print('/repo has uncommitted changes: abort'); sys.exit(2)
    if subprocess.call(['git', '-C', '/repo', 'apply', d + '/patch.diff']) != 0:
        res[sid] = {'error': 'patch does not apply to /repo HEAD'}; print(sid, 'patch does not apply'); continue
    try:
        out = {}
        for p in props:
            if p not in claimed:
                out[p] = {'caught': False, 'note': 'property not claimed'}; continue
            t0 = time.time()
            q = subprocess.run(['./check', p, '--tier', 'quick'], cwd=V, capture_output=True, text=True, env=dict(os.environ, XV_EVIDENCE_DIR='/tmp/xv_sweep_evidence'))
            viol = [l for l in q.stdout.split('\n') if l.startswith('VIOLATION')]
            out[p] = {'exit': q.returncode, 'violation_lines': len(viol), 'caught': q.returncode == 1 and len(viol) > 0, 'first': (viol[0][:300] if viol else ''),
                      'summary': (q.stdout.strip().split('\n')[-1][:300] if q.stdout.strip() else ''), 'stderr_tail': q.stderr[-300:] if q.returncode not in (0, 1) else '',
                      'seconds': round(time.time() - t0, 1)}
            print(sid, p, 'exit', q.returncode, 'violations', len(viol), '%.0fs' % (time.time() - t0), flush=True)
        res[sid] = {'property': meta['property'], 'checks': out, 'caught_by': [p for p, r in out.items() if r.get('caught')]}
    finally:
        subprocess.call(['git', '-C', '/repo', 'checkout', '--', '.'])
    json.dump(res, open(resf, 'w'), indent=1)
print('done')
