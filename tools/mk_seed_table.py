#!/usr/bin/env python3
"""regenerates the table of DESIGN.md section 11.5 (between the SEED-TABLE markers) from seeded/*/meta.json and seeded/RESULTS.json"""
import json, os, re
V = os.path.dirname(os.path.dirname(os.path.abspath(__file__)))
res = json.load(open(V + '/seeded/RESULTS.json')) if os.path.exists(V + '/seeded/RESULTS.json') else {}
rows = ['| seed | property | change (first line of the author\'s description) | checks run (quick tier) | caught by |', '|---|---|---|---|---|']
n_run = n_caught = 0
for sid in sorted(d for d in os.listdir(V + '/seeded') if os.path.isdir(V + '/seeded/' + d)):
    m = json.load(open('%s/seeded/%s/meta.json' % (V, sid)))
    desc = [l.strip() for l in m.get('needs_to_manifest', '').split('\n') if l.strip()]
    first = next((l for l in desc if not re.match(r'^(change|file|seeded|=+|-+|readme)\b', l.lower()) and len(l) > 25), desc[0] if desc else '')
    first = re.sub(r'\s+', ' ', first).replace('|', '/')[:170]
    r = res.get(sid)
    if not r or 'checks' not in r:
        rows.append('| %s | %s | %s | not re-run in the last sweep | - |' % (sid, m['property'], first)); continue
    n_run += 1
    ran = ', '.join('%s (exit %s, %d VIOLATION lines, %ss)' % (p, c.get('exit'), c.get('violation_lines', 0), c.get('seconds')) for p, c in r['checks'].items())
    cb = ', '.join(r.get('caught_by', [])) or '**missed**'
    if r.get('caught_by'): n_caught += 1
    rows.append('| %s | %s | %s | %s | %s |' % (sid, m['property'], first, ran, cb))
txt = '\n'.join(rows) + '\n\nSeeds run in the last sweep: %d, caught by at least one check: %d.\n' % (n_run, n_caught)
p = V + '/DESIGN.md'
s = open(p).read()
a = s.index('<!-- SEED-TABLE-BEGIN -->') + len('<!-- SEED-TABLE-BEGIN -->\n'); b = s.index('<!-- SEED-TABLE-END -->')
open(p, 'w').write(s[:a] + txt + s[b:])
print('rows', len(rows) - 2, 'run', n_run, 'caught', n_caught)
