#!/bin/bash
# confirm_seed.sh <worktree> <n> <seed-id> <property>: re-checks a sub-agent's deliverable in its scratch worktree and imports it into /verif/seeded/<seed-id>
# (demo passes on clean tree, fails with patch; full existing test-suite passes with the patch; patch applies to /repo HEAD)
wt=$1; n=$2; id=$3; prop=$4
d=$wt/deliver/$n
out=/tmp/seed_results/$id; mkdir -p $out
cd $wt || exit 2
git checkout -q -- . 
log=$out/confirm.log; : > $log
g++ -std=c++17 -O2 -march=native -I $wt/include $d/demo.cpp -o $out/demo_clean >> $log 2>&1 && timeout 600 $out/demo_clean >> $log 2>&1; rc_clean=$?
git apply $d/patch.diff >> $log 2>&1 || { echo "patch does not apply" >> $log; echo '{"ok": false, "why": "patch does not apply in worktree"}' > $out/result.json; exit 1; }
g++ -std=c++17 -O2 -march=native -I $wt/include $d/demo.cpp -o $out/demo_patched >> $log 2>&1 && timeout 600 $out/demo_patched >> $log 2>&1; rc_patched=$?
[ -d $wt/_build ] || cmake -G Ninja -S $wt -B $wt/_build -DBUILD_TESTS=ON -DCMAKE_BUILD_TYPE=RelWithDebInfo -DCMAKE_CXX_FLAGS=-Wno-error -DDOWNLOAD_DOCTEST=OFF >> $log 2>&1
cmake --build $wt/_build -j8 > $out/build.log 2>&1; rc_build=$?
ctest --test-dir $wt/_build -j4 --timeout 900 > $out/ctest.log 2>&1; rc_ctest=$?
git checkout -q -- .
git -C /repo apply --check $d/patch.diff > $out/apply_repo.log 2>&1; rc_apply=$?
ok=false
if [ $rc_clean -eq 0 ] && [ $rc_patched -ne 0 ] && [ $rc_build -eq 0 ] && [ $rc_ctest -eq 0 ] && [ $rc_apply -eq 0 ]; then ok=true; fi
echo "{\"ok\": $ok, \"demo_clean_rc\": $rc_clean, \"demo_patched_rc\": $rc_patched, \"build_rc\": $rc_build, \"ctest_rc\": $rc_ctest, \"applies_to_repo_head\": $rc_apply, \"ctest_summary\": \"$(grep 'tests passed' $out/ctest.log | head -1)\"}" > $out/result.json
if $ok; then
  s=/verif/seeded/$id; mkdir -p $s
  cp $d/patch.diff $s/patch.diff; cp $d/demo.cpp $s/demo.cpp; cp $d/README.txt $s/README.txt 2>/dev/null
  python3 - "$s" "$prop" "$out/result.json" "$d/README.txt" <<'PY'
import json, sys
s, prop, res, readme = sys.argv[1:5]
r = json.load(open(res))
try: rd = open(readme).read()
except Exception: rd = ''
json.dump({'property': prop, 'needs_to_manifest': rd.strip(), 'confirmed': r,
           'what_i_ran': 'tools/confirm_seed.sh: demo.cpp built with g++ -std=c++17 -O2 -march=native against the clean worktree (exit 0) and with patch.diff applied (exit != 0); cmake --build + ctest of the unedited test-suite with the patch applied (100% passed); git -C /repo apply --check patch.diff'},
          open(s + '/meta.json', 'w'), indent=1)
PY
fi
cat $out/result.json
