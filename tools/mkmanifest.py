#!/usr/bin/env python3
"""regenerates MANIFEST.json from the table below (keeps it valid at all times)"""
import json, os
V = os.path.dirname(os.path.dirname(os.path.abspath(__file__)))
props = [json.loads(l) for l in open(os.path.join(V, 'properties.jsonl'))]
TB = ('clang-14 -O1 lowering of the generated extern "C" wrappers is faithful; the IR->SMT executor and the x86 intrinsic models (xv/x86.py, xv/intrinsics.py) '
      'are correct (cross-checked on every counterexample by native replay and by ./check validate against the host CPU); z3 5.1 / cvc5 1.0.3 are sound; '
      'preconditions and bounds listed in the evidence file')
CLAIMED = {
 'C01': ('model_checking', 'bounded-by-width symbolic execution of clang-14 IR of every integer-arithmetic kernel (op x type x 23 x86 archs) to z3 bit-vector terms; per-lane equivalence with the two\'s-complement scalar spec decided by z3/cvc5 for all operand bit patterns; counterexamples replayed natively', '5 C01', 'IR symbolic execution + SMT (QF_BV) per-lane equivalence, native replay'),
 'C03': ('model_checking', 'symbolic execution of comparison/mask/select kernels; comparisons vs SMT-LIB FloatingPoint/bit-vector predicates for all operand bits; mask operators over all 2^n canonical masks at once; from_mask LUTs with symbolic index', '5 C03', 'IR symbolic execution + SMT (QF_BV/QF_FP) per-lane equivalence'),
 'C07': ('model_checking', 'symbolic execution of bitwise/shift/rotate kernels; equivalence with bvshl/bvlshr/bvashr/rotate for all lane values x all counts in [0,bits), scalar and per-lane counts', '5 C07', 'IR symbolic execution + SMT (QF_BV) per-lane equivalence, native replay'),
 'C09': ('model_checking', 'symbolic execution of every reduction kernel: integer sums/extrema vs modular sum and per-lane bound + attained obligations; FP sums and haddp in token abstraction (each lane exactly once); generic reduce with an external AC function', '5 C09', 'IR symbolic execution + SMT; token abstraction for FP sums'),
 'C13': ('model_checking', 'spec-free 2-safety query on every element-wise kernel body: lane k of two executions agreeing on lane k only is equal; broadcast gives equal lanes; obtained by substitution in the result term of the real code', '5 C13', 'self-composition (non-interference) over symbolically executed IR + SMT'),
 'C04': ('model_checking', 'symbolic pointer + symbolic memory: value map lane i <-> element i, access-footprint obligations over the executor\'s access log (every access inside [p, p+size*sizeof(T)), every byte covered, nothing around the object modified), alignment attribute of each access implied by the entry point\'s contract, gather/scatter address sets with symbolic index batches', '5 C04', 'IR symbolic execution with symbolic memory + SMT; access-log footprint/alignment obligations'),
 'C15': ('model_checking', 'the real supported_arch constructor and dispatcher executed symbolically with CPUID/XGETBV results as symbolic registers; availability implications, completeness, monotonicity and the dispatch call trace decided for all register values', '5 C15', 'IR symbolic execution with symbolic CPUID/XCR0 registers + SMT; call-trace obligations'),
 'C18': ('model_checking', 'allocate/deallocate executed symbolically with posix_memalign/free as contract stubs and symbolic n; block size compared in 128-bit arithmetic; is_aligned and get_alignment_offset for all pointers/sizes/blocks', '5 C18', 'IR symbolic execution with nondeterministic allocator stub + SMT'),
 'C02': ('model_checking', 'symbolic execution of every basic FP kernel; oracle = SMT-LIB FloatingPoint theory (IEEE-754 RNE): arithmetic, sign/bit manipulation, fma family with fused/unfused latitude, min/max, predicates, sign/signnz, frexp, ldexp (single rounding in a wider sort), nextafter, for all bit patterns', '5 C02', 'IR symbolic execution + SMT (QF_FP/QF_BV) per-lane equivalence, native replay'),
 'C08': ('model_checking', 'symbolic execution of ceil/floor/trunc/round/nearbyint/rint/nearbyint_as_int/to_int kernels (hardware round* models and the conversion-based generic path); oracle = fp.roundToIntegral / fp.to_sbv for every float32 and float64', '5 C08', 'IR symbolic execution + SMT (QF_FP) per-lane equivalence'),
 'C17': ('model_checking', 'every scalar overload of xsimd_scalar.hpp named by the property executed symbolically and held to the same spec object as the batch kernels (all operand values), plus a spec-free differential: scalar overload vs lane 0 of the batch operation on broadcast operands, in one wrapper, for all operands; integer-exponent pow with abstracted multiplications and an unwinding assertion (|n| <= 64); elementary-function clause not decided', '5 C17', 'IR symbolic execution + SMT (QF_BV/QF_FP) equivalence with the shared specs; scalar-vs-lane differential query'),
 'C20': ('other', 'constant tables folded by clang from the real headers (sizes, register widths, alignments, list positions, is_base_of matrix, make_sized_batch, trait widths) read back from the IR; each relation of the property is one solver query with symbolic architecture/type indices (ground facts: degenerate solver use, said so); plus symbolic execution of every aligned load/store body: align attribute of each access divides A::alignment()', '5 C20', 'compile-time tables from the IR + SMT over symbolic (arch,type) indices; IR access-log alignment attributes'),
 'C16': ('model_checking', 'PARTIAL: ==/!=, real/imag/conj/neg/proj, + and -, isnan/isinf/isfinite exact (SMT FloatingPoint / bit-vectors, all operand bits); interleaved complex load/store value map, footprint and alignment on all 23 archs; *, /, fma family, norm, complex(op)real: the term extracted from the real kernel (arithmetic as uninterpreted functions) is interpreted over the reals and z3 NRA decides equality with the textbook formula plus a rounding-count bound - not an error bound; complex elementary functions not decided', '5 C16', 'IR symbolic execution + SMT (QF_FP/QF_BV) for the exact items; real-arithmetic abstraction (NRA identity + rounding count) for * / fma'),
 'C19': ('model_checking', 'bounded family of batch_constant / batch_bool_constant instantiations per (type, arch) lowered from the real headers: as_batch/get(symbolic i)/mask()/operators against the packs (folded constants: degenerate solver use, said so) and constant-vs-run-time API equivalence of select and swizzle on symbolic data', '5 C19', 'IR symbolic execution + SMT per-lane equivalence over a bounded instantiation family'),
}
NA = {
 'C10': 'no SMT theory contains exp/log/sin/erf/gamma: an ulp bound against the real-valued function cannot be expressed as a solver query over the code (DESIGN.md section 6); exhausting 2^32 inputs would be enumeration, a different technique',
 'C11': 'same as C10 with 53-bit significands (DESIGN.md section 6)',
}
checks = []
na = []
for p in props:
    i = p['id']
    if i in CLAIMED:
        cat, text, ref, tech = CLAIMED[i]
        checks.append({'property_id': i, 'quick_cmd': './check %s --tier quick' % i, 'thorough_cmd': './check %s --tier thorough' % i,
                       'evidence_file': 'evidence/%s.json' % i, 'replay_cmd_template': './check %s --replay {path}' % i, 'engine': 'xv',
                       'level_claimed': {'category': cat, 'text': text, 'design_ref': 'DESIGN.md section ' + ref},
                       'level_note': TB, 'technique': tech})
    else:
        na.append({'property_id': i, 'reason': NA.get(i, 'check not built yet (build in progress; DESIGN.md section 8b gives the order)')})
m = {'version': 1, 'setup_cmd': 'true',
     'hooks': {'guard': 'XSIMD_VERIF_HOOKS', 'enable': 'none: no source hooks are needed; checks lower /repo/include with clang-14 to LLVM IR and model cpuid/xgetbv/posix_memalign at IR level',
               'baseline_off_cmd': 'ctest --test-dir /repo/_build -j8 --timeout 900', 'source_commits': [], 'add_only': True},
     'engines': [{'name': 'xv', 'path': 'xv/', 'serves_properties': sorted(CLAIMED), 'kind_free_text': 'clang-14 LLVM IR -> own symbolic executor (python, z3 API) -> z3 5.1 + cvc5 1.0.3 portfolio; native replay of counterexamples'}],
     'checks': checks, 'not_applicable': na,
     'notes': 'Solver-based checking of the real code. ./check <id> regenerates wrappers and IR from /repo on every run. Exit 3 = internal error of the machinery (never a verdict).'}
json.dump(m, open(os.path.join(V, 'MANIFEST.json'), 'w'), indent=1)
print('claimed', sorted(CLAIMED), 'na', len(na))
