#!/usr/bin/env python3
"""prints the prompt given to a fresh sub-agent that seeds a property-breaking change (no /verif knowledge is included)"""
import json, sys
pid = sys.argv[1]; n = sys.argv[2] if len(sys.argv) > 2 else 'a'
p = [json.loads(l) for l in open('/verif/properties.jsonl') if json.loads(l)['id'] == pid][0]
wt = '/tmp/wt_%s%s' % (pid, n)
print(f"""You are helping to evaluate a verification effort for the C++ header-only SIMD library xsimd (xtensor-stack/xsimd 13.2.0).
Your job: produce {('TWO different, independent changes' if n == 'a' else 'ONE change')} to the library source that BREAK the semantic property quoted below, while the library still compiles
and its existing test-suite still passes. You work ONLY inside your own scratch git worktree; never touch /repo or /verif (do not read /verif either).

Setup (do this first):
  git -C /repo worktree add --detach {wt} HEAD
  cd {wt}
The library headers are under {wt}/include/xsimd. The existing tests are under {wt}/test. To build and run the existing test suite against your changed headers:
  cmake -G Ninja -S {wt} -B {wt}/_build -DBUILD_TESTS=ON -DCMAKE_BUILD_TYPE=RelWithDebInfo -DCMAKE_CXX_FLAGS=-Wno-error -DDOWNLOAD_DOCTEST=OFF
  cmake --build {wt}/_build -j6 && ctest --test-dir {wt}/_build -j4 --timeout 900
(the test build takes several minutes; the test binary is compiled with -march=native, and this host is an AVX-512 machine, so the suite only executes the best available architecture's kernels;
other architectures such as xsimd::sse2, xsimd::avx, xsimd::avx2 can still be instantiated explicitly and executed on this host in your demonstration, e.g. xsimd::batch<int32_t, xsimd::sse2>, compiling with g++ -std=c++17 -O2 -march=native -I {wt}/include.)
There is no network access. Use -j6 at most for builds (the machine is shared).

THE PROPERTY ({p['id']}: {p['title']}):
  {p['statement']}
  Quantified over: {p['quantifier']['text']}
  Files where it is anchored: {', '.join(p['anchors']['files'])}

What I need for each change:
  * A realistic source change (the kind of slip a maintainer could make in a refactoring or an optimisation: a wrong constant or mask, a swapped operand, an off-by-one in a bound, a wrong intrinsic variant, a missing special case, a wrong branch condition, two sites that each look fine alone...), NOT a comment-only or build-system change, and NOT something that ordinary use or the existing tests would expose at once.
    It must need something specific to manifest: an unusual input value (boundary value, specific bit pattern, NaN payload, a particular lane position, a particular shift count, a particular index pattern, a particular CPU-feature combination, a near-overflow size...), a particular architecture/type instantiation, or a multi-step sequence of operations.
  * The library must still compile (headers included from a TU built with g++ -std=c++11/-std=c++17 -march=native) and the FULL existing test suite must still pass with your change (run it and check: ctest must report 100% passed).
  * A demonstration: a small self-contained C++ program (demo.cpp, using only the public xsimd API and the standard library) that exits 0 on the ORIGINAL source and exits non-zero (printing what went wrong) WITH your change applied. Verify both directions yourself (git stash / git apply -R to toggle).
  * The two changes (if two are requested) must use different mechanisms in different functions, and each must be independent of the other (each patch applies alone to a clean tree).

Deliverables: create the directory {wt}/deliver/1 (and {wt}/deliver/2) containing:
  patch.diff   - output of `git diff` for that change alone, relative to the worktree root (so that `git apply patch.diff` works in a clean checkout of the same commit)
  demo.cpp     - the demonstration program
  run.txt      - the exact commands you ran (compile + run of the demo with and without the patch, and the ctest summary line with the patch applied) and their observed output
  README.txt   - 5-10 lines: what the change is, why it breaks the property, exactly which input / architecture / type / sequence is needed for it to manifest, and why the existing tests do not notice.
When finished, leave the worktree source tree CLEAN (git checkout -- . so that no patch is applied; keep deliver/ and _build/), and reply with a short summary (paths of the deliverables, one line per change). Do not remove the worktree.""")
