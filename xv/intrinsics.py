"""Models of LLVM generic and x86 intrinsics (the trusted base; each is validated against the CPU by the
translator-validation pass).  Semantics follow the LLVM LangRef and the Intel SDM pseudo-code."""
import re, math
import z3
from . import llir
from .llir import IntT, FloatT, PtrT, VecT, ArrT, StructT, VoidT, sizeof
from .symex import (F, Ptr, Unsupported, EncoderError, bv, mask, is_c, ite, extract, concat_le, fresh, fresh_bool,
                    tosigned, b_and, b_or, b_not, zbool, RNE, FSORT)

NOOPS = ('llvm.lifetime.', 'llvm.dbg.', 'llvm.experimental.noalias', 'llvm.assume', 'llvm.prefetch', 'llvm.invariant.',
         'llvm.x86.sse2.pause', 'llvm.donothing')


def lanes_of(ty, v):
    return v if isinstance(ty, VecT) else [v]


def relane(ty, out):
    return out if isinstance(ty, VecT) else out[0]


def elw(ty):
    e = ty.el if isinstance(ty, VecT) else ty
    return e.n


def lanewise(ty, fn, *vs):
    if isinstance(ty, VecT):
        return [fn(*xs) for xs in zip(*vs)]
    return fn(*vs)


def i_smin(n, a, b): return ite(ex_.icmp1('slt', n, a, b), a, b, n)
def i_smax(n, a, b): return ite(ex_.icmp1('sgt', n, a, b), a, b, n)
def i_umin(n, a, b): return ite(ex_.icmp1('ult', n, a, b), a, b, n)
def i_umax(n, a, b): return ite(ex_.icmp1('ugt', n, a, b), a, b, n)


ex_ = None


def sat_add(n, a, b, signed):
    A, B = bv(a, n), bv(b, n)
    if signed:
        w = z3.SignExt(1, A) + z3.SignExt(1, B)
        hi = z3.BitVecVal((1 << (n - 1)) - 1, n + 1); lo = z3.BitVecVal(-(1 << (n - 1)), n + 1)
        r = z3.If(w > hi, hi, z3.If(w < lo, lo, w))
    else:
        w = z3.ZeroExt(1, A) + z3.ZeroExt(1, B)
        hi = z3.BitVecVal(mask(n), n + 1)
        r = z3.If(z3.UGT(w, hi), hi, w)
    return simp_c(z3.Extract(n - 1, 0, r), a, b)


def sat_sub(n, a, b, signed):
    A, B = bv(a, n), bv(b, n)
    if signed:
        w = z3.SignExt(1, A) - z3.SignExt(1, B)
        hi = z3.BitVecVal((1 << (n - 1)) - 1, n + 1); lo = z3.BitVecVal(-(1 << (n - 1)), n + 1)
        r = z3.If(w > hi, hi, z3.If(w < lo, lo, w))
        return simp_c(z3.Extract(n - 1, 0, r), a, b)
    return simp_c(z3.If(z3.ULT(A, B), z3.BitVecVal(0, n), A - B), a, b)


def simp_c(r, *args):
    if all(is_c(a) for a in args):
        r = z3.simplify(r)
        if z3.is_bv_value(r): return r.as_long()
        if z3.is_true(r): return True
        if z3.is_false(r): return False
    return r


def shift_count_scalar(n, x, cnt, cw, kind):
    """x86 psll/psrl/psra with a scalar/imm count (count >= width -> 0 or sign fill); cnt width cw"""
    X = bv(x, n)
    if is_c(cnt):
        c = cnt
        if kind == 'l': return 0 if c >= n else simp_c(X << c, x)
        if kind == 'r': return 0 if c >= n else simp_c(z3.LShR(X, c), x)
        return simp_c(X >> min(c, n - 1), x)
    C = cnt
    big = z3.UGE(C, z3.BitVecVal(n, cw))
    if cw > n: Cn = z3.Extract(n - 1, 0, C)
    elif cw < n: Cn = z3.ZeroExt(n - cw, C)
    else: Cn = C
    if kind == 'l': return z3.If(big, z3.BitVecVal(0, n), X << Cn)
    if kind == 'r': return z3.If(big, z3.BitVecVal(0, n), z3.LShR(X, Cn))
    return X >> z3.If(big, z3.BitVecVal(n - 1, n), Cn)


def fp_round(ex, x, mode):
    """round to integral in the given z3 rounding mode, keeping NaN -> NaN, exact otherwise"""
    r = z3.fpRoundToIntegral(mode, x.fp())
    if is_c(x._bits) and x._bits is not None: r = z3.simplify(r)
    return F(x.n, fp=r)


def mxcsr_round_imm(imm):
    """SSE4.1 round / AVX512 rndscale immediate -> z3 rounding mode (MXCSR.RC assumed nearest-even)"""
    if imm & 4: return z3.RNE()
    return [z3.RNE(), z3.RTN(), z3.RTP(), z3.RTZ()][imm & 3]


def x86_minmax(ex, a, b, is_min):
    """MINPS/MAXPS: returns the second operand if either is NaN or both are zero"""
    c = z3.fpLT(a.fp(), b.fp()) if is_min else z3.fpGT(a.fp(), b.fp())
    return ex.select1(c, FloatT(a.n), a, b)


def cvt_fp_to_int(ex, st, x, n, signed, trunc):
    """x86 cvt(t)ps2dq family: integer indefinite on overflow/NaN; non-truncating uses MXCSR (RNE)"""
    f = x.fp(); sort = FSORT[x.n]
    mode = z3.RTZ() if trunc else z3.RNE()
    r = z3.fpRoundToIntegral(mode, f)
    if signed:
        lo = z3.fpSignedToFP(RNE, z3.BitVecVal(1 << (n - 1), n), sort)
        inr = z3.And(z3.fpGEQ(r, lo), z3.fpLT(r, z3.fpNeg(lo)))
        conv = z3.fpToSBV(mode, f, z3.BitVecSort(n))
        bad = z3.BitVecVal(1 << (n - 1), n)
    else:
        hi = z3.fpMul(RNE, z3.fpUnsignedToFP(RNE, z3.BitVecVal(1 << (n - 1), n), sort), z3.FPVal(2.0, sort))
        inr = z3.And(z3.fpGEQ(r, z3.FPVal(0.0, sort)), z3.fpLT(r, hi))
        # negative values that round to -0 are in range (result 0)
        conv = z3.fpToUBV(mode, f, z3.BitVecSort(n))
        bad = z3.BitVecVal(mask(n), n)
    res = z3.If(inr, conv, bad)
    return simp_c(res, x._bits if x._bits is not None else None) if (x._bits is not None and is_c(x._bits)) else res


def call_intrinsic(ex, st, ins, name, args):
    global ex_
    ex_ = ex
    nm = name[1:]
    if nm.startswith(NOOPS): return None
    ex.intrinsics_used.add(re.sub(r'\.(v\d+)?(i\d+|f\d+|p0\w+)(\.\S*)?$', '', nm))
    rty = ins.ty
    aty = [t for t, _ in ins.ops]
    m = re.match(r'llvm\.(smin|smax|umin|umax)\.', nm)
    if m:
        fn = {'smin': i_smin, 'smax': i_smax, 'umin': i_umin, 'umax': i_umax}[m.group(1)]
        n = elw(rty)
        return lanewise(rty, lambda a, b: fn(n, a, b), args[0], args[1])
    m = re.match(r'llvm\.abs\.', nm)
    if m:
        n = elw(rty)
        def f_(a):
            if is_c(a): return (-tosigned(a, n)) & mask(n) if tosigned(a, n) < 0 else a
            return z3.If(a < 0, -a, a)
        if args[1] is True:
            pass  # INT_MIN is poison: keep wrapping semantics (x86 pabs), noted as UB-free because xsimd passes false
        return lanewise(rty, f_, args[0])
    m = re.match(r'llvm\.(s|u)(add|sub)\.sat\.', nm)
    if m:
        n = elw(rty); sg = m.group(1) == 's'
        fn = sat_add if m.group(2) == 'add' else sat_sub
        return lanewise(rty, lambda a, b: fn(n, a, b, sg), args[0], args[1])
    m = re.match(r'llvm\.(fshl|fshr)\.', nm)
    if m:
        n = elw(rty); left = m.group(1) == 'fshl'
        def f_(a, b, c):
            A, B, C = bv(a, n), bv(b, n), bv(c, n)
            cc = z3.URem(C, z3.BitVecVal(n, n))
            w = z3.Concat(A, B)
            cw = z3.ZeroExt(n, cc)
            if left: r = z3.Extract(2 * n - 1, n, w << cw)
            else: r = z3.Extract(n - 1, 0, z3.LShR(w, cw))
            return simp_c(r, a, b, c)
        return lanewise(rty, f_, *args[:3])
    m = re.match(r'llvm\.(ctpop|ctlz|cttz|bswap|bitreverse)\.', nm)
    if m:
        n = elw(rty); k = m.group(1)
        def f_(a, *rest):
            A = bv(a, n)
            if k == 'ctpop':
                r = z3.BitVecVal(0, n)
                for i in range(n): r = r + z3.ZeroExt(n - 1, z3.Extract(i, i, A))
            elif k == 'cttz':
                r = z3.BitVecVal(n, n)
                for i in reversed(range(n)): r = z3.If(z3.Extract(i, i, A) == 1, z3.BitVecVal(i, n), r)
            elif k == 'ctlz':
                r = z3.BitVecVal(n, n)
                for i in range(n): r = z3.If(z3.Extract(i, i, A) == 1, z3.BitVecVal(n - 1 - i, n), r)
            elif k == 'bswap':
                r = z3.Concat(*[z3.Extract(8 * i + 7, 8 * i, A) for i in range(n // 8)])
            else:
                r = z3.Concat(*[z3.Extract(i, i, A) for i in range(n)])
            return simp_c(r, a)
        return lanewise(rty, f_, args[0])
    m = re.match(r'llvm\.vector\.reduce\.(add|mul|and|or|xor|smax|smin|umax|umin)\.', nm)
    if m:
        n = aty[0].el.n; k = m.group(1)
        v = args[0]
        if n == 1:
            r = v[0]
            for x in v[1:]:
                r = {'and': b_and, 'or': b_or, 'mul': b_and}.get(k, None)(r, x) if k in ('and', 'or', 'mul') else ex.int_binop(st, 'xor', 1, r, x, [])
            return r
        fn = {'add': lambda a, b: ex.int_binop(st, 'add', n, a, b, []), 'mul': lambda a, b: ex.int_binop(st, 'mul', n, a, b, []),
              'and': lambda a, b: ex.int_binop(st, 'and', n, a, b, []), 'or': lambda a, b: ex.int_binop(st, 'or', n, a, b, []),
              'xor': lambda a, b: ex.int_binop(st, 'xor', n, a, b, []),
              'smax': lambda a, b: i_smax(n, a, b), 'smin': lambda a, b: i_smin(n, a, b),
              'umax': lambda a, b: i_umax(n, a, b), 'umin': lambda a, b: i_umin(n, a, b)}[k]
        r = v[0]
        for x in v[1:]: r = fn(r, x)
        return r
    # ---- floating point generic
    m = re.match(r'llvm\.(fabs|copysign|sqrt|fma|fmuladd|floor|ceil|trunc|rint|nearbyint|round|roundeven|minnum|maxnum)\.', nm)
    if m:
        k = m.group(1); n = elw(rty)
        fm = ins.extra.get('fmf') or ()
        sb = 1 << (n - 1)
        if k == 'fabs':
            return lanewise(rty, lambda a: F(n, bits=simp_and(a.bits(), sb - 1, n)), args[0])
        if k == 'copysign':
            return lanewise(rty, lambda a, b: F(n, bits=simp_or(simp_and(a.bits(), sb - 1, n), simp_and(b.bits(), sb, n), n)), args[0], args[1])
        if k == 'sqrt':
            return lanewise(rty, lambda a: ex.fp_arith(st, 'sqrt', n, [a], fm), args[0])
        if k == 'fma':
            return lanewise(rty, lambda a, b, c: ex.fp_arith(st, 'fma', n, [a, b, c], fm), *args[:3])
        if k == 'fmuladd':
            def fmuladd(a, b, c):
                fused = ex.fp_arith(st, 'fma', n, [a, b, c], fm)
                unf = ex.fp_arith(st, 'fadd', n, [ex.fp_arith(st, 'fmul', n, [a, b], fm), c], fm)
                ch = fresh_bool('fmuladd_fused')
                return ex.select1(ch, FloatT(n), fused, unf)
            return lanewise(rty, fmuladd, *args[:3])
        modes = {'floor': z3.RTN(), 'ceil': z3.RTP(), 'trunc': z3.RTZ(), 'rint': z3.RNE(), 'nearbyint': z3.RNE(),
                 'round': z3.RNA(), 'roundeven': z3.RNE()}
        if k in modes:
            return lanewise(rty, lambda a: fp_round(ex, a, modes[k]), args[0])
        if k in ('minnum', 'maxnum'):
            def mm(a, b):
                fa, fb = a.fp(), b.fp()
                r = z3.If(z3.fpIsNaN(fa), fb, z3.If(z3.fpIsNaN(fb), fa, (z3.fpMin if k == 'minnum' else z3.fpMax)(fa, fb)))
                return F(n, fp=r)
            return lanewise(rty, mm, args[0], args[1])
    m = re.match(r'llvm\.vector\.reduce\.(fadd|fmul|fmax|fmin)\.', nm)
    if m:
        k = m.group(1); n = aty[-1].el.n
        if k in ('fadd', 'fmul'):
            acc, v = args
            r = acc
            if ex.fpmode == 'token' and k == 'fadd' and acc._bits in (0, 1 << (n - 1)):
                r = F(n, bits=0)          # +-0 start value: the additive identity of the token abstraction
            for x in v: r = ex.fp_arith(st, k, n, [r, x], ins.extra.get('fmf') or ())
            return r
        raise Unsupported(nm)
    # ---- memory intrinsics
    if nm.startswith(('llvm.memcpy.', 'llvm.memmove.')):
        dst, src, ln = args[0], args[1], args[2]
        if not is_c(ln):
            return sym_memcpy(ex, st, dst, src, ln)
        vals = ex.load(st, ArrT(ln, IntT(8)), src, 1) if ex.regions[src.rid].kind != 'ext' else [ex.load(st, IntT(8), Ptr(src.rid, addoff(src.off, k), src.hint), 1) for k in range(ln)]
        if ex.regions[dst.rid].kind == 'ext':
            for k in range(ln): ex.store(st, IntT(8), vals[k], Ptr(dst.rid, addoff(dst.off, k), dst.hint), 1)
        else:
            ex.store(st, ArrT(ln, IntT(8)), vals, dst, 1)
        return None
    if nm.startswith('llvm.memset.'):
        dst, val, ln = args[0], args[1], args[2]
        if not is_c(ln): raise Unsupported('symbolic memset length')
        for k in range(ln): ex.store(st, IntT(8), val, Ptr(dst.rid, addoff(dst.off, k), dst.hint), 1)
        return None
    if nm.startswith('llvm.masked.store.'):
        val, ptr, align, msk = args
        ety = aty[0].el
        sz = sizeof(ety)
        for i, (x, mb) in enumerate(zip(val, msk)):
            p = Ptr(ptr.rid, addoff(ptr.off, i * sz), ptr.hint)
            if isinstance(mb, bool):
                if mb: ex.store(st, ety, x, p, 1)
            else:
                masked_store1(ex, st, ety, x, p, mb)
        return None
    if nm.startswith('llvm.masked.load.'):
        ptr, align, msk, passthru = args
        ety = rty.el; sz = sizeof(ety); out = []
        for i, (mb, pt) in enumerate(zip(msk, passthru)):
            p = Ptr(ptr.rid, addoff(ptr.off, i * sz), ptr.hint)
            if isinstance(mb, bool):
                out.append(ex.load(st, ety, p, 1) if mb else pt)
            else:
                out.append(masked_load1(ex, st, ety, p, mb, pt))
        return out
    if nm.startswith('llvm.masked.gather.'):
        ptrs, align, msk, passthru = args
        ety = rty.el; out = []
        for p, mb, pt in zip(ptrs, msk, passthru):
            if isinstance(mb, bool): out.append(ex.load(st, ety, p, 1) if mb else pt)
            else: out.append(masked_load1(ex, st, ety, p, mb, pt))
        return out
    if nm.startswith('llvm.masked.scatter.'):
        val, ptrs, align, msk = args
        ety = aty[0].el
        for x, p, mb in zip(val, ptrs, msk):
            if isinstance(mb, bool):
                if mb: ex.store(st, ety, x, p, 1)
            else: masked_store1(ex, st, ety, x, p, mb)
        return None
    if nm.startswith('llvm.x86.'):
        from . import x86
        return x86.call(ex, st, ins, nm, args, rty, aty)
    if nm.startswith('llvm.is.constant'): return False
    if nm.startswith('llvm.objectsize'): return mask(ins.ty.n)
    if nm.startswith('llvm.expect'): return args[0]
    if nm.startswith('llvm.trap'):
        st.dead = True; st.outcome = 'trap'; return None
    if nm.startswith(('llvm.stacksave', 'llvm.stackrestore')): return Ptr(None, 0)
    if nm.startswith('llvm.eh.typeid.for'): return fresh('typeid', 32)
    raise Unsupported('intrinsic ' + nm)


def sym_memcpy(ex, st, dst, src, ln):
    """memcpy with a symbolic length between local regions: byte k is copied under the guard k < len; the bound is the size of
    the smaller region (a longer copy is an out-of-bounds access and is reported through the in-bounds obligations)"""
    rd, rs = ex.regions[dst.rid], ex.regions[src.rid]
    if rd.kind == 'ext' or rs.kind == 'ext': raise Unsupported('symbolic memcpy length on caller memory')
    maxlen = min(rd.size, rs.size)
    ex.obligs.append(('inbounds', list(st.pc), z3.ULE(ln, z3.BitVecVal(maxlen, ln.size())), 'memcpy length <= %d' % maxlen))
    for k in range(maxlen):
        cond = z3.UGT(ln, z3.BitVecVal(k, ln.size()))
        ok_t, ok_f = ex.feasible(st.pc, cond)
        if not ok_t: break
        st.pc.append(cond)
        v = ex.load(st, IntT(8), Ptr(src.rid, addoff(src.off, k), 1), 1)
        pd = Ptr(dst.rid, addoff(dst.off, k), 1)
        old = ex.load(st, IntT(8), pd, 1)
        ex.store(st, IntT(8), ite(cond, v, old, 8) if ok_f else v, pd, 1)
        st.pc.pop()
    return None


def simp_and(a, c, n):
    if is_c(a): return a & c
    return a & z3.BitVecVal(c, n)


def simp_or(a, b, n):
    if is_c(a) and is_c(b): return a | b
    return bv(a, n) | bv(b, n)


def addoff(off, k):
    if k == 0: return off
    if is_c(off): return off + k
    return off + z3.BitVecVal(k, 64)


def masked_store1(ex, st, ety, x, p, mb):
    """store under a symbolic mask bit: access only happens (and is only logged) on the mb path"""
    st.pc.append(mb)
    n_before = len(ex.accesses)
    r = ex.regions[p.rid]
    if r.kind == 'ext':
        saved = st.ext
        ex.store(st, ety, x, p, 1)
        st.ext = z3.If(mb, st.ext, saved)
    else:
        old = ex.load(st, ety, p, 1)
        ex.store(st, ety, ex.select1(mb, ety, x, old), p, 1)
        # the read of the old value is an artefact of the encoding, not an access
    st.pc.pop()


def masked_load1(ex, st, ety, p, mb, pt):
    st.pc.append(mb)
    v = ex.load(st, ety, p, 1)
    st.pc.pop()
    return ex.select1(mb, ety, v, pt)


# ---------------------------------------------------------------- inline asm / external functions
def inline_asm(ex, st, ins, args):
    text, cons = ins.extra['asm']
    if 'cpuid' in text or 'xgetbv' in text:
        h = ex.stubs.get('asm')
        if h: return h(ex, st, ins, args, text, cons)
    if text.strip() == '' :
        return args[0] if args else None
    raise Unsupported('inline asm: ' + text[:40])


def call_external(ex, st, ins, name, args):
    h = ex.stubs.get('*')
    if h:
        r = h(ex, st, ins, name, args)
        if r is not NotImplemented: return r
    raise Unsupported('external call ' + name)
