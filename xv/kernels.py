"""Kernel tables: which (operation, type, arch) wrappers each property instantiates."""
from . import gen
from .gen import Kernel, ITYPES, FTYPES, ATYPES, TYPES, ALL_ARCHS, CORE_ARCHS, lanes, is_avx512, B, BB


def V(t): return ('v', t)
def M(t): return ('m', t)


# ---------------------------------------------------------------- C01 integer arithmetic
C01_OPS = [
    # op, args, ret, expr
    ('add', 'vv', 'v', 'a + b'), ('sub', 'vv', 'v', 'a - b'), ('mul', 'vv', 'v', 'a * b'),
    ('neg', 'v', 'v', '-a'), ('abs', 'v', 'v', 'xsimd::abs(a)'),
    ('min', 'vv', 'v', 'xsimd::min(a, b)'), ('max', 'vv', 'v', 'xsimd::max(a, b)'),
    ('incr', 'v', 'v', 'xsimd::incr(a)'), ('decr', 'v', 'v', 'xsimd::decr(a)'),
    ('incr_if', 'vm', 'v', 'xsimd::incr_if(a, b)'), ('decr_if', 'vm', 'v', 'xsimd::decr_if(a, b)'),
    ('fma', 'vvv', 'v', 'xsimd::fma(a, b, c)'), ('fms', 'vvv', 'v', 'xsimd::fms(a, b, c)'),
    ('fnma', 'vvv', 'v', 'xsimd::fnma(a, b, c)'), ('fnms', 'vvv', 'v', 'xsimd::fnms(a, b, c)'),
    ('div', 'vv', 'v', 'a / b'), ('mod', 'vv', 'v', 'a % b'),
    ('sign', 'v', 'v', 'xsimd::sign(a)'),
    ('sadd', 'vv', 'v', 'xsimd::sadd(a, b)'), ('ssub', 'vv', 'v', 'xsimd::ssub(a, b)'),
    ('avg', 'vv', 'v', 'xsimd::avg(a, b)'), ('avgr', 'vv', 'v', 'xsimd::avgr(a, b)'),
    ('adds', 'vT', 'v', 'a + b'), ('muls', 'vT', 'v', 'a * b'),   # batch (op) scalar forms: broadcast + op
]


def mk(prop, op, sig, ret, expr, ty, arch, variant='', meta=None, rty=None, pre=''):
    args = []
    for ch in sig:
        if ch == 'v': args.append(('v', ty))
        elif ch == 'm': args.append(('m', ty))
        elif ch == 's': args.append(('s', None))
        elif ch == 'z': args.append(('z', None))
        elif ch == 'T': args.append(('T', ty))
        elif ch == 'q': args.append(('q', ty))
        elif ch == 'p': args.append(('p', ty))
    r = (ret, rty or ty) if ret in ('v', 'm', 'T') else (ret, None)
    return Kernel(prop, op, ty, arch, args, r, expr, variant, meta, pre)


def c01(archs, types=ITYPES):
    ks = []
    for arch in archs:
        for ty in types:
            for op, sig, ret, expr in C01_OPS:
                ks.append(mk('C01', op, sig, ret, expr, ty, arch))
    return ks


# ---------------------------------------------------------------- C07 bitwise / shifts / rotates
C07_OPS = [
    ('and', 'vv', 'v', 'a & b'), ('or', 'vv', 'v', 'a | b'), ('xor', 'vv', 'v', 'a ^ b'), ('not', 'v', 'v', '~a'),
    ('andnot', 'vv', 'v', 'xsimd::bitwise_andnot(a, b)'),
    ('shl', 'vs', 'v', 'a << b'), ('shr', 'vs', 'v', 'a >> b'),
    ('shlv', 'vv', 'v', 'a << b'), ('shrv', 'vv', 'v', 'a >> b'),
    ('rotl', 'vs', 'v', 'xsimd::rotl(a, b)'), ('rotr', 'vs', 'v', 'xsimd::rotr(a, b)'),
    ('rotlv', 'vv', 'v', 'xsimd::rotl(a, b)'), ('rotrv', 'vv', 'v', 'xsimd::rotr(a, b)'),
]


def c07(archs, types=ITYPES):
    return [mk('C07', op, sig, ret, expr, ty, arch) for arch in archs for ty in types for op, sig, ret, expr in C07_OPS]


# ---------------------------------------------------------------- C03 comparisons / masks / select
C03_OPS = [
    ('eq', 'vv', 'm', 'a == b'), ('ne', 'vv', 'm', 'a != b'), ('lt', 'vv', 'm', 'a < b'), ('le', 'vv', 'm', 'a <= b'),
    ('gt', 'vv', 'm', 'a > b'), ('ge', 'vv', 'm', 'a >= b'),
    ('mand', 'mm', 'm', 'a & b'), ('mor', 'mm', 'm', 'a | b'), ('mxor', 'mm', 'm', 'a ^ b'),
    ('mnot', 'm', 'm', '~a'), ('mlnot', 'm', 'm', '!a'), ('meq', 'mm', 'm', 'a == b'), ('mne', 'mm', 'm', 'a != b'),
    ('mandnot', 'mm', 'm', 'xsimd::bitwise_andnot(a, b)'),
    ('mand2', 'mm', 'm', 'a && b'), ('mor2', 'mm', 'm', 'a || b'),
    ('mask', 'm', 'u64', 'a.mask()'),
    ('from_mask', 'z', 'm', '%(BB)s::from_mask(a)'),
    ('all', 'm', 'bool', 'xsimd::all(a)'), ('any', 'm', 'bool', 'xsimd::any(a)'), ('none', 'm', 'bool', 'xsimd::none(a)'),
    ('count', 'm', 'u64', 'xsimd::count(a)'),
    ('select', 'mvv', 'v', 'xsimd::select(a, b, c)'),
    ('mget', 'mz', 'bool', 'a.get(b)'),
    ('to01', 'm', 'v', '%(B)s(a)'),
    ('bool_rt', 'm', 'm', '%(BB)s::load_unaligned(buf)', 'bool buf[%(N)d]; a.store_unaligned(buf);'),
    ('bool_rt_al', 'm', 'm', '%(BB)s::load_aligned(buf)', 'alignas(64) bool buf[%(N)d]; a.store_aligned(buf);'),
    ('bool_load', 'x:bool const* a', 'm', '%(BB)s::load_unaligned(a)'),
    ('bool_store', 'x:bool* a|m', 'void', 'b.store_unaligned(a);'),
]


def c03(archs, types=ATYPES):
    ks = []
    for arch in archs:
        for ty in types:
            sub = dict(B=B(ty, arch), BB=BB(ty, arch), N=lanes(ty, arch), T=TYPES[ty][0])
            for row in C03_OPS:
                op, sig, ret, expr = row[:4]
                pre = (row[4] % sub) if len(row) > 4 else ''
                if sig.startswith('x:'):
                    k = Kernel('C03', op, ty, arch, [], (ret, ty if ret in 'vm' else None), expr % sub, '', None, pre)
                    parts = sig[2:].split('|')
                    k.args = [('x', parts[0])] + [('m', ty) for p_ in parts[1:]]
                    ks.append(k)
                else:
                    ks.append(mk('C03', op, sig, ret, expr % sub, ty, arch, pre=pre))
            # batch_bool_cast between same-width types
            for ty2 in ATYPES:
                if ty2 != ty and TYPES[ty2][1] == TYPES[ty][1]:
                    k = mk('C03', 'mcast', 'm', 'm', 'xsimd::batch_bool_cast<%s>(a)' % TYPES[ty2][0], ty, arch, variant=ty2, rty=ty2)
                    ks.append(k)
    return ks


# ---------------------------------------------------------------- C09 reductions
def c09(archs, types=ATYPES):
    ks = []
    for arch in archs:
        for ty in types:
            n = lanes(ty, arch); b = B(ty, arch)
            ks.append(mk('C09', 'reduce_add', 'v', 'T', 'xsimd::reduce_add(a)', ty, arch))
            ks.append(mk('C09', 'reduce_max', 'v', 'T', 'xsimd::reduce_max(a)', ty, arch))
            ks.append(mk('C09', 'reduce_min', 'v', 'T', 'xsimd::reduce_min(a)', ty, arch))
            pre = '%s::register_type xv_f(%s::register_type, %s::register_type);' % (b, b, b)
            ks.append(mk('C09', 'reduce', 'v', 'T', 'xsimd::reduce([](%s const& x, %s const& y) { return %s(xv_f(x.data, y.data)); }, a)' % (b, b, b), ty, arch, pre=pre,
                         meta={'replay_extra': '%s::register_type xv_f(%s::register_type x, %s::register_type y) { return (%s(x) + %s(y)).data; }' % (b, b, b, b, b)}))
            if TYPES[ty][3] == 'fp':
                pre = '%s rows[%d]; for (int i = 0; i < %d; ++i) rows[i] = %s::load_unaligned(a + i * %d);' % (b, n, n, b, n)
                ks.append(mk('C09', 'haddp', 'q', 'v', 'xsimd::haddp(rows)', ty, arch, pre=pre))
    return ks


# ---------------------------------------------------------------- C05 data movement
import random as _random

UT = {8: 'u8', 16: 'u16', 32: 'u32', 64: 'u64'}


def swizzle_masks(n, tier, rng, two_input=False):
    """bounded family of compile-time index patterns for n lanes (indices < n, or < 2n for two-input shuffles) -> {name: tuple}"""
    m = 2 * n if two_input else n
    fam = {}
    if n == 2 and not two_input:
        for a in range(2):
            for b in range(2): fam['all%d%d' % (a, b)] = (a, b)
        return fam
    if n == 2 and two_input:
        for a in range(4):
            for b in range(4): fam['all%d%d' % (a, b)] = (a, b)
        return fam
    def add(name, t):
        t = tuple(int(x) % m for x in t)
        if t not in fam.values(): fam[name] = t
    full = tier == 'thorough'
    add('id', range(n)); add('rev', reversed(range(n)))
    bc = range(n) if (n <= 4 or full) else [0, n // 2, n - 1]
    for b in bc: add('bc%d' % b, [b] * n)
    rt = range(1, n) if (n <= 4 or full) else [1, n // 2, n - 1]
    for r in rt: add('rot%d' % r, [(i + r) % n for i in range(n)])
    add('swapadj', [i ^ 1 for i in range(n)])
    add('swaphalf', [(i + n // 2) % n for i in range(n)])
    add('duplo', [i % (n // 2) for i in range(n)]); add('duphi', [n // 2 + i % (n // 2) for i in range(n)])
    add('zip', [(i // 2) + (n // 2) * (i % 2) for i in range(n)])
    add('unzip', [2 * i if i < n // 2 else 2 * (i - n // 2) + 1 for i in range(n)])
    if full:
        add('evens', [2 * (i % (n // 2)) for i in range(n)]); add('odds', [2 * (i % (n // 2)) + 1 for i in range(n)])
    if n >= 4:
        q = max(n // 4, 1)
        add('revq', [(i // q) * q + (q - 1 - i % q) for i in range(n)])             # reverse inside quarters (in-128-bit-lane for 512)
        add('xlane', [(i + q) % n if (i // q) % 2 == 0 else i for i in range(n)])    # some lanes cross, some stay
        if full: add('lastfirst', [n - 1] + list(range(n - 1)))
        add('halfmix', [i if i % 2 == 0 else (i + n // 2) % n for i in range(n)])    # mixes indices from both halves inside each output half
    if two_input:
        add('snd', range(n, 2 * n)); add('zip_lo', [(i // 2) + n * (i % 2) for i in range(n)])
        add('zip_hi', [n // 2 + (i // 2) + n * (i % 2) for i in range(n)])
        add('blend', [i + n * (i % 2) for i in range(n)]); add('blend2', [i + n * ((i // 2) % 2) for i in range(n)])
        add('lo_x_hi_y', [i if i < n // 2 else n + i for i in range(n)]); add('lo_y_hi_x', [n + i if i < n // 2 else i for i in range(n)])
        if full: add('xrev_y', [n - 1 - i if i % 2 else n + i for i in range(n)])
    if n == 4 and two_input:
        # one index off the in-lane fast paths (vshufpd / shufps style packs): every position of four base packs takes every value in
        # [0, 2n) while the other positions stay inside the fast-path ranges (seed C19-5: a lost lower bound on one index of shuffle<double, avx>)
        for bi, base in enumerate(((0, 4, 2, 6), (1, 5, 3, 7), (0, 1, 4, 5), (2, 3, 6, 7))):
            for pos in range(4):
                for v in range(8):
                    t = list(base); t[pos] = v
                    add('near%d_%d_%d' % (bi, pos, v), t)
    if n == 4 and not two_input and tier == 'thorough':
        for v in range(256): add('all%03d' % v, [(v >> (2 * i)) & 3 for i in range(4)])
    R = 3 if tier == 'quick' else 48
    for r in range(R): add('rnd%d' % r, [rng.randrange(m) for _ in range(n)])
    return fam


def c05(archs, tier, seed, types=ATYPES):
    ks = []
    for arch in archs:
        regbytes = (int(arch[3:]) if arch.startswith('emu') else gen.ARCH[arch][2]) // 8
        for ty in types:
            n = lanes(ty, arch); w = TYPES[ty][1]; ut = UT[w]; b = B(ty, arch); cut = TYPES[ut][0]; ca = gen.cpp_arch(arch)
            rng = _random.Random('%s/%s/%d' % (ty, n, seed))     # same family for every arch with that geometry => bodies de-duplicate
            # run-time index swizzle
            k = Kernel('C05', 'swizzle_dyn', ty, arch, [('v', ty), ('v', ut)], ('v', ty), 'xsimd::swizzle(a, b)'); ks.append(k)
            for name, msk in swizzle_masks(n, tier, rng).items():
                ks.append(Kernel('C05', 'swizzle', ty, arch, [('v', ty)], ('v', ty), 'xsimd::swizzle(a, xsimd::batch_constant<%s, %s, %s>())' % (cut, ca, ', '.join(map(str, msk))),
                                 variant=name, meta={'mask': msk}))
            for name, msk in swizzle_masks(n, tier, rng, two_input=True).items():
                ks.append(Kernel('C05', 'shuffle', ty, arch, [('v', ty), ('v', ty)], ('v', ty), 'xsimd::shuffle(a, b, xsimd::batch_constant<%s, %s, %s>())' % (cut, ca, ', '.join(map(str, msk))),
                                 variant=name, meta={'mask': msk}))
            ks.append(mk('C05', 'zip_lo', 'vv', 'v', 'xsimd::zip_lo(a, b)', ty, arch)); ks.append(mk('C05', 'zip_hi', 'vv', 'v', 'xsimd::zip_hi(a, b)', ty, arch))
            ks.append(mk('C05', 'extract_pair', 'vvz', 'v', 'xsimd::extract_pair(a, b, c)', ty, arch))
            if n <= 16 or (tier == 'thorough' and n <= 32):
                ks.append(mk('C05', 'compress', 'vm', 'v', 'xsimd::compress(a, b)', ty, arch)); ks.append(mk('C05', 'expand', 'vm', 'v', 'xsimd::expand(a, b)', ty, arch))
            else:
                # wide masks: the mask bits are symbolic inside a 16-lane window, concrete (all 0 / all 1) outside it
                for lo in (range(0, n, 16) if tier == 'thorough' else sorted({0, n - 16})):     # quick: first and last window
                    for bg in ((0, 1) if tier == 'thorough' else (0,)):      # all-ones background: the rank terms make these the hardest queries (thorough only)
                        v = 'w%db%d' % (lo, bg)
                        ks.append(mk('C05', 'compress', 'vm', 'v', 'xsimd::compress(a, b)', ty, arch, variant=v, meta={'window': (lo, lo + 16), 'bg': bg}))
                        ks.append(mk('C05', 'expand', 'vm', 'v', 'xsimd::expand(a, b)', ty, arch, variant=v, meta={'window': (lo, lo + 16), 'bg': bg}))
            Ns = range(n) if (n <= 4 or tier == 'thorough') else sorted({0, 1, n // 2 - 1, n // 2, n - 1})
            for N in Ns:
                ks.append(mk('C05', 'rotate_left', 'v', 'v', 'xsimd::rotate_left<%d>(a)' % N, ty, arch, variant=str(N), meta={'N': N}))
                ks.append(mk('C05', 'rotate_right', 'v', 'v', 'xsimd::rotate_right<%d>(a)' % N, ty, arch, variant=str(N), meta={'N': N}))
            Is = range(n) if (n <= 4 or tier == 'thorough') else sorted({0, n // 2 - 1, n // 2, n - 1})
            for I in Is:
                ks.append(mk('C05', 'insert', 'vT', 'v', 'xsimd::insert(a, b, xsimd::index<%d>())' % I, ty, arch, variant=str(I), meta={'I': I}))
            if TYPES[ty][3] == 'int':
                Bs = range(regbytes + 1) if tier == 'thorough' else sorted({0, 1, 3, 4, 8, 12, 15, 16, 17, 24, 31, 32, 33, 48, 63, 64} & set(range(regbytes + 1)))
                for N in Bs:
                    ks.append(mk('C05', 'slide_left', 'v', 'v', 'xsimd::slide_left<%d>(a)' % N, ty, arch, variant=str(N), meta={'N': N}))
                    ks.append(mk('C05', 'slide_right', 'v', 'v', 'xsimd::slide_right<%d>(a)' % N, ty, arch, variant=str(N), meta={'N': N}))
            pre = '%s m[%d]; for (int i = 0; i < %d; ++i) m[i] = %s::load_unaligned(a + i * %d); xsimd::transpose(m, m + %d); for (int i = 0; i < %d; ++i) m[i].store_unaligned(b + i * %d);' % (b, n, n, b, n, n, n, n)
            ks.append(mk('C05', 'transpose', 'qp', 'void', '', ty, arch, pre=pre))
    return ks


# ---------------------------------------------------------------- C04 loads / stores / gather / scatter / broadcast / get
IT = {8: 'i8', 16: 'i16', 32: 'i32', 64: 'i64'}


def c04(archs, types=ATYPES):
    ks = []
    for arch in archs:
        ca = gen.cpp_arch(arch)
        for ty in types:
            n = lanes(ty, arch); w = TYPES[ty][1]; b = B(ty, arch); ct = TYPES[ty][0]; it = IT[w]
            sub = dict(B=b, T=ct, A=ca, N=n)
            for nm, expr in [('load_aligned', '%(B)s::load_aligned(a)'), ('load_unaligned', '%(B)s::load_unaligned(a)'),
                             ('load_tag_al', 'xsimd::load<%(A)s>(a, xsimd::aligned_mode())'), ('load_tag_un', 'xsimd::load<%(A)s>(a, xsimd::unaligned_mode())'),
                             ('load_as_al', 'xsimd::load_as<%(T)s, %(A)s>(a, xsimd::aligned_mode())'), ('load_as_un', 'xsimd::load_as<%(T)s, %(A)s>(a, xsimd::unaligned_mode())')]:
                ks.append(mk('C04', nm, 'q', 'v', expr % sub, ty, arch, meta={'aligned': nm.endswith(('aligned', '_al'))}))
            for nm, expr in [('store_aligned', 'b.store_aligned(a);'), ('store_unaligned', 'b.store_unaligned(a);'),
                             ('store_tag_al', 'xsimd::store(a, b, xsimd::aligned_mode());'), ('store_tag_un', 'xsimd::store(a, b, xsimd::unaligned_mode());'),
                             ('store_as_al', 'xsimd::store_as(a, b, xsimd::aligned_mode());'), ('store_as_un', 'xsimd::store_as(a, b, xsimd::unaligned_mode());')]:
                k = Kernel('C04', nm, ty, arch, [('p', ty), ('v', ty)], ('void', None), expr, meta={'aligned': nm.endswith(('aligned', '_al'))}); ks.append(k)
            # bool arrays: footprint of batch_bool load/store (values are C03)
            ks.append(Kernel('C04', 'bool_load', ty, arch, [('x', 'bool const* a')], ('m', ty), '%s::load_unaligned(a)' % BB(ty, arch)))
            ks.append(Kernel('C04', 'bool_store', ty, arch, [('x', 'bool* a'), ('m', ty)], ('void', None), 'b.store_unaligned(a);'))
            # gather / scatter with an index batch of same-width signed integers
            ks.append(Kernel('C04', 'gather', ty, arch, [('q', ty), ('v', it)], ('v', ty), '%s::gather(a, b)' % b))
            ks.append(Kernel('C04', 'scatter', ty, arch, [('p', ty), ('v', ty), ('v', it)], ('void', None), 'b.scatter(a, c);'))
            ks.append(mk('C04', 'broadcast', 'T', 'v', '%s(a)' % b, ty, arch)); ks.append(mk('C04', 'broadcast2', 'T', 'v', '%s::broadcast(a)' % b, ty, arch))
            ks.append(mk('C04', 'ctor_list', 'q', 'v', '%s(%s)' % (b, ', '.join('a[%d]' % i for i in range(n))), ty, arch))
            ks.append(mk('C04', 'get', 'vz', 'T', 'a.get(b)', ty, arch))
    return ks


# ---------------------------------------------------------------- C08 rounding, C02 basic floating point, C06 conversions
def c08(archs, types=FTYPES):
    ks = []
    for arch in archs:
        for ty in types:
            w = TYPES[ty][1]; it = IT[w]
            for op in ('ceil', 'floor', 'trunc', 'round', 'nearbyint', 'rint'):
                ks.append(mk('C08', op, 'v', 'v', 'xsimd::%s(a)' % op, ty, arch))
            ks.append(mk('C08', 'nearbyint_as_int', 'v', 'v', 'xsimd::nearbyint_as_int(a)', ty, arch, rty=it))
            ks.append(mk('C08', 'to_int', 'v', 'v', 'xsimd::to_int(a)', ty, arch, rty=it))
    return ks


C02_OPS = [
    ('add', 'vv', 'v', 'a + b'), ('sub', 'vv', 'v', 'a - b'), ('mul', 'vv', 'v', 'a * b'), ('div', 'vv', 'v', 'a / b'), ('sqrt', 'v', 'v', 'xsimd::sqrt(a)'),
    ('neg', 'v', 'v', '-a'), ('abs', 'v', 'v', 'xsimd::abs(a)'), ('fabs', 'v', 'v', 'xsimd::fabs(a)'), ('copysign', 'vv', 'v', 'xsimd::copysign(a, b)'), ('bitofsign', 'v', 'v', 'xsimd::bitofsign(a)'),
    ('and', 'vv', 'v', 'a & b'), ('or', 'vv', 'v', 'a | b'), ('xor', 'vv', 'v', 'a ^ b'), ('not', 'v', 'v', '~a'), ('andnot', 'vv', 'v', 'xsimd::bitwise_andnot(a, b)'),
    ('fma', 'vvv', 'v', 'xsimd::fma(a, b, c)'), ('fms', 'vvv', 'v', 'xsimd::fms(a, b, c)'), ('fnma', 'vvv', 'v', 'xsimd::fnma(a, b, c)'), ('fnms', 'vvv', 'v', 'xsimd::fnms(a, b, c)'),
    ('min', 'vv', 'v', 'xsimd::min(a, b)'), ('max', 'vv', 'v', 'xsimd::max(a, b)'),
    ('isnan', 'v', 'm', 'xsimd::isnan(a)'), ('isinf', 'v', 'm', 'xsimd::isinf(a)'), ('isfinite', 'v', 'm', 'xsimd::isfinite(a)'),
    ('is_flint', 'v', 'm', 'xsimd::is_flint(a)'), ('is_even', 'v', 'm', 'xsimd::is_even(a)'), ('is_odd', 'v', 'm', 'xsimd::is_odd(a)'),
    ('sign', 'v', 'v', 'xsimd::sign(a)'), ('signnz', 'v', 'v', 'xsimd::signnz(a)'),
    ('nextafter', 'vv', 'v', 'xsimd::nextafter(a, b)'),
    ('incr', 'v', 'v', 'xsimd::incr(a)'), ('decr', 'v', 'v', 'xsimd::decr(a)'),
    ('adds', 'vT', 'v', 'a + b'), ('muls', 'vT', 'v', 'a * b'),
]


def c02(archs, types=FTYPES, elementwise_only=False):
    ks = []
    for arch in archs:
        for ty in types:
            w = TYPES[ty][1]; it = IT[w]; bi = B(it, arch)
            for op, sig, ret, expr in C02_OPS:
                ks.append(mk('C02', op, sig, ret, expr, ty, arch))
            ks.append(Kernel('C02', 'ldexp', ty, arch, [('v', ty), ('v', it)], ('v', ty), 'xsimd::ldexp(a, b)'))
            ks.append(mk('C02', 'frexp_m', 'v', 'v', 'xsimd::frexp(a, e)', ty, arch, pre='%s e;' % bi))
            ks.append(mk('C02', 'frexp_e', 'v', 'v', 'e', ty, arch, pre='%s e; (void)xsimd::frexp(a, e);' % bi, rty=it))
    return ks


# ---------------------------------------------------------------- C06 conversions
def c06(archs, tier='quick', elementwise_only=False):
    ks = []
    for arch in archs:
        ca = gen.cpp_arch(arch)
        for f in ATYPES:
            wf = TYPES[f][1]; cf_ = TYPES[f][0]
            for t in ATYPES:
                wt = TYPES[t][1]; ct = TYPES[t][0]
                if f != t and wf == wt:
                    ks.append(Kernel('C06', 'batch_cast', f, arch, [('v', f)], ('v', t), 'xsimd::batch_cast<%s>(a)' % ct, variant=t, meta={'to': t, 'from': f}))
                if f != t and not elementwise_only:
                    ks.append(Kernel('C06', 'bitwise_cast', f, arch, [('v', f)], ('v', t), 'xsimd::bitwise_cast<%s>(a)' % ct, variant=t, meta={'to': t, 'from': f}))
                    ks.append(Kernel('C06', 'bitwise_cast_rt', f, arch, [('v', f)], ('v', f), 'xsimd::bitwise_cast<%s>(xsimd::bitwise_cast<%s>(a))' % (cf_, ct), variant=t, meta={'to': t, 'from': f}))
                    # converting loads / stores: batch<To> from From* ; To* from batch<From>
                    for mode, tag in (('aligned', 'al'), ('unaligned', 'un')):
                        ks.append(Kernel('C06', 'load_as_' + tag, t, arch, [('q', f)], ('v', t), 'xsimd::load_as<%s, %s>(a, xsimd::%s_mode())' % (ct, ca, mode),
                                         variant=f, meta={'to': t, 'from': f, 'aligned': mode == 'aligned'}))
                        ks.append(Kernel('C06', 'store_as_' + tag, f, arch, [('p', t), ('v', f)], ('void', None), 'xsimd::store_as(a, b, xsimd::%s_mode());' % mode,
                                         variant=t, meta={'to': t, 'from': f, 'aligned': mode == 'aligned'}))
                    ks.append(Kernel('C06', 'broadcast_as', t, arch, [('T', f)], ('v', t), 'xsimd::broadcast_as<%s, %s>(a)' % (ct, ca), variant=f, meta={'to': t, 'from': f}))
            if TYPES[f][3] == 'fp':
                ks.append(Kernel('C06', 'to_int', f, arch, [('v', f)], ('v', IT[wf]), 'xsimd::to_int(a)', meta={'to': IT[wf], 'from': f}))
            elif TYPES[f][2] and wf >= 32:
                ft = 'f32' if wf == 32 else 'f64'
                ks.append(Kernel('C06', 'to_float', f, arch, [('v', f)], ('v', ft), 'xsimd::to_float(a)', meta={'to': ft, 'from': f}))
    return ks


# ---------------------------------------------------------------- C17 scalar overloads
C17_INT = [
    ('add', 'TT', 'xsimd::add(a, b)'), ('sub', 'TT', 'xsimd::sub(a, b)'), ('mul', 'TT', 'xsimd::mul(a, b)'),
    ('div', 'TT', 'xsimd::div(a, b)'), ('mod', 'TT', 'xsimd::mod(a, b)'), ('neg', 'T', 'xsimd::neg(a)'), ('abs', 'T', 'xsimd::abs(a)'),
    ('min', 'TT', 'xsimd::min(a, b)'), ('max', 'TT', 'xsimd::max(a, b)'), ('sadd', 'TT', 'xsimd::sadd(a, b)'), ('ssub', 'TT', 'xsimd::ssub(a, b)'),
    ('avg', 'TT', 'xsimd::avg(a, b)'), ('avgr', 'TT', 'xsimd::avgr(a, b)'), ('incr', 'T', 'xsimd::incr(a)'), ('decr', 'T', 'xsimd::decr(a)'),
    ('incr_if', 'Tb', 'xsimd::incr_if(a, b)'), ('decr_if', 'Tb', 'xsimd::decr_if(a, b)'),
    ('and', 'TT', 'xsimd::bitwise_and(a, b)'), ('or', 'TT', 'xsimd::bitwise_or(a, b)'), ('xor', 'TT', 'xsimd::bitwise_xor(a, b)'),
    ('not', 'T', 'xsimd::bitwise_not(a)'), ('andnot', 'TT', 'xsimd::bitwise_andnot(a, b)'),
    ('shl', 'Ts', 'xsimd::bitwise_lshift(a, b)'), ('shr', 'Ts', 'xsimd::bitwise_rshift(a, b)'),
    ('rotl', 'Ts', 'xsimd::rotl(a, b)'), ('rotr', 'Ts', 'xsimd::rotr(a, b)'),
    ('fma', 'TTT', 'xsimd::fma(a, b, c)'), ('fms', 'TTT', 'xsimd::fms(a, b, c)'), ('fnma', 'TTT', 'xsimd::fnma(a, b, c)'), ('fnms', 'TTT', 'xsimd::fnms(a, b, c)'),
    ('clip', 'TTT', 'xsimd::clip(a, b, c)'), ('select', 'bTT', 'xsimd::select(a, b, c)'),
]
C17_CMP = [('eq', 'xsimd::eq(a, b)'), ('ne', 'xsimd::neq(a, b)'), ('lt', 'xsimd::lt(a, b)'), ('le', 'xsimd::le(a, b)'), ('gt', 'xsimd::gt(a, b)'), ('ge', 'xsimd::ge(a, b)')]
C17_FP = [
    ('add', 'TT', 'xsimd::add(a, b)'), ('sub', 'TT', 'xsimd::sub(a, b)'), ('mul', 'TT', 'xsimd::mul(a, b)'), ('div', 'TT', 'xsimd::div(a, b)'),
    ('neg', 'T', 'xsimd::neg(a)'), ('abs', 'T', 'xsimd::abs(a)'), ('min', 'TT', 'xsimd::min(a, b)'), ('max', 'TT', 'xsimd::max(a, b)'),
    ('incr', 'T', 'xsimd::incr(a)'), ('decr', 'T', 'xsimd::decr(a)'), ('incr_if', 'Tb', 'xsimd::incr_if(a, b)'), ('decr_if', 'Tb', 'xsimd::decr_if(a, b)'),
    ('and', 'TT', 'xsimd::bitwise_and(a, b)'), ('or', 'TT', 'xsimd::bitwise_or(a, b)'), ('xor', 'TT', 'xsimd::bitwise_xor(a, b)'),
    ('not', 'T', 'xsimd::bitwise_not(a)'), ('andnot', 'TT', 'xsimd::bitwise_andnot(a, b)'),
    ('fma', 'TTT', 'xsimd::fma(a, b, c)'), ('fms', 'TTT', 'xsimd::fms(a, b, c)'), ('fnma', 'TTT', 'xsimd::fnma(a, b, c)'), ('fnms', 'TTT', 'xsimd::fnms(a, b, c)'),
    ('clip', 'TTT', 'xsimd::clip(a, b, c)'), ('select', 'bTT', 'xsimd::select(a, b, c)'),
    ('avg', 'TT', 'xsimd::avg(a, b)'), ('avgr', 'TT', 'xsimd::avgr(a, b)'),
]
# batch spellings used by the scalar-vs-lane differential (BA, BB_, BC = broadcast operands)
C17_DIFF = {
    'add': 'BA + BB_', 'sub': 'BA - BB_', 'mul': 'BA * BB_', 'div': 'BA / BB_', 'mod': 'BA % BB_', 'neg': '-BA', 'abs': 'xsimd::abs(BA)',
    'min': 'xsimd::min(BA, BB_)', 'max': 'xsimd::max(BA, BB_)', 'sadd': 'xsimd::sadd(BA, BB_)', 'ssub': 'xsimd::ssub(BA, BB_)',
    'avg': 'xsimd::avg(BA, BB_)', 'avgr': 'xsimd::avgr(BA, BB_)', 'incr': 'xsimd::incr(BA)', 'decr': 'xsimd::decr(BA)',
    'incr_if': 'xsimd::incr_if(BA, MB)', 'decr_if': 'xsimd::decr_if(BA, MB)',
    'and': 'BA & BB_', 'or': 'BA | BB_', 'xor': 'BA ^ BB_', 'not': '~BA', 'andnot': 'xsimd::bitwise_andnot(BA, BB_)',
    'shl': 'BA << b', 'shr': 'BA >> b', 'rotl': 'xsimd::rotl(BA, b)', 'rotr': 'xsimd::rotr(BA, b)',
    'fma': 'xsimd::fma(BA, BB_, BC)', 'fms': 'xsimd::fms(BA, BB_, BC)', 'fnma': 'xsimd::fnma(BA, BB_, BC)', 'fnms': 'xsimd::fnms(BA, BB_, BC)',
    'clip': 'xsimd::clip(BA, BB_, BC)', 'select': 'xsimd::select(MA, BB_, BC)',
    'is_flint': None, 'is_even': None, 'is_odd': None,
}


def _sigargs(sig, ty):
    out = []
    for ch in sig:
        if ch == 'T': out.append(('T', ty))
        elif ch == 'b': out.append(('b', None))
        elif ch == 's': out.append(('s', None))
    return out


def c17(tier, diff_archs):
    ks = []
    for ty in ATYPES:
        ct, w, sg, cls = TYPES[ty]
        table = C17_INT if cls == 'int' else C17_FP
        for op, sig, expr in table:
            ks.append(Kernel('C17', op, ty, 'scalar', _sigargs(sig, ty), ('T', ty), '(%s)(%s)' % (ct, expr), meta={'sig': sig}))
        for op, expr in C17_CMP:
            ks.append(Kernel('C17', op, ty, 'scalar', _sigargs('TT', ty), ('bool', None), expr, meta={'sig': 'TT'}))
        if cls == 'fp':
            for op in ('is_flint', 'is_even', 'is_odd'):
                ks.append(Kernel('C17', op, ty, 'scalar', [('T', ty)], ('bool', None), 'xsimd::%s(a)' % op, meta={'sig': 'T'}))
            it = IT[w]
            ks.append(Kernel('C17', 'nearbyint_as_int', ty, 'scalar', [('T', ty)], ('T', it), 'xsimd::nearbyint_as_int(a)', meta={'sig': 'T'}))
        for t2 in ATYPES:
            if t2 != ty and TYPES[t2][1] == w:
                ks.append(Kernel('C17', 'bitwise_cast', ty, 'scalar', [('T', ty)], ('T', t2), 'xsimd::bitwise_cast<%s>(a)' % TYPES[t2][0], variant=t2, meta={'sig': 'T', 'to': t2}))
        # scalar-vs-lane differential on real batch architectures: out[0] = scalar overload, out[1] = lane 0 of the batch operation on broadcast operands
        for arch in diff_archs:
            b = B(ty, arch); bb = BB(ty, arch)
            for op, sig, expr in table:
                bexpr = C17_DIFF.get(op)
                if bexpr is None: continue
                if cls == 'fp' and op in ('fma', 'fms', 'fnma', 'fnms'): continue     # fused (std::fma) vs unfused (mul+add archs) is allowed latitude: held to the spec separately
                pre = '%s BA(a);' % b
                if sig.count('T') >= 2 or (sig == 'bTT'): pre += ' %s BB_(b);' % b
                if sig in ('TTT', 'bTT'): pre += ' %s BC(c);' % b
                if sig == 'Tb': pre += ' %s MB(b);' % bb
                if sig == 'bTT': pre = '%s MA(a); %s BB_(b); %s BC(c);' % (bb, b, b)
                names = 'abc'[:len(sig)]
                body = '%s out[0] = (%s)(%s); out[1] = (%s).get(0);' % (pre, ct, expr, bexpr)
                k = Kernel('C17', 'diff_' + op, ty, arch, _sigargs(sig, ty) + [('x', '%s* out' % ct)], ('void', None), body, meta={'sig': sig, 'diff': op})
                ks.append(k)
            if cls == 'fp':
                body = '%s BA(a); out[0] = xsimd::pow(a, b); out[1] = xsimd::pow(BA, b).get(0);' % b
                ks.append(Kernel('C17', 'diff_pow_int', ty, arch, [('T', ty), ('s', None), ('x', '%s* out' % ct)], ('void', None), body, meta={'sig': 'Ts', 'diff': 'pow_int'}))
    return ks


# ---------------------------------------------------------------- C12 / C13(math) / C14 elementary functions
MATH_UNARY = ['exp', 'exp2', 'exp10', 'expm1', 'log', 'log2', 'log10', 'log1p', 'sin', 'cos', 'tan', 'asin', 'acos', 'atan',
              'sinh', 'cosh', 'tanh', 'asinh', 'acosh', 'atanh', 'erf', 'erfc', 'tgamma', 'lgamma', 'cbrt', 'sqrt', 'rsqrt_', 'reciprocal_']
MATH_UNARY = [f for f in MATH_UNARY if not f.endswith('_')]
MATH_BINARY = ['pow', 'atan2', 'hypot', 'fmod', 'remainder', 'fdim']
# kernel variants: the generic math kernels are architecture-independent source; they differ by the primitives they are built on
MATH_ARCHS = ['sse2', 'sse4_1', 'fma3_avx2', 'avx512f']


def cmath(prop, archs=MATH_ARCHS, types=FTYPES, unary=MATH_UNARY, binary=MATH_BINARY):
    ks = []
    for arch in archs:
        for ty in types:
            for f in unary:
                ks.append(mk(prop, f, 'v', 'v', 'xsimd::%s(a)' % f, ty, arch))
            for f in binary:
                ks.append(mk(prop, f, 'vv', 'v', 'xsimd::%s(a, b)' % f, ty, arch))
            b = B(ty, arch)
            ks.append(mk(prop, 'sincos_s', 'v', 'v', 'xsimd::sincos(a).first', ty, arch))
            ks.append(mk(prop, 'sincos_c', 'v', 'v', 'xsimd::sincos(a).second', ty, arch))
            ks.append(mk(prop, 'fabs', 'v', 'v', 'xsimd::fabs(a)', ty, arch)); ks.append(mk(prop, 'abs', 'v', 'v', 'xsimd::abs(a)', ty, arch))
            ks.append(mk(prop, 'rint', 'v', 'v', 'xsimd::rint(a)', ty, arch)); ks.append(mk(prop, 'nearbyint', 'v', 'v', 'xsimd::nearbyint(a)', ty, arch))
    return ks


# ---------------------------------------------------------------- C16 complex batches
C16_BIN = [('add', 'x + y'), ('sub', 'x - y'), ('mul', 'x * y'), ('div', 'x / y')]
C16_TER = [('fma', 'xsimd::fma(x, y, z)'), ('fms', 'xsimd::fms(x, y, z)'), ('fnma', 'xsimd::fnma(x, y, z)'), ('fnms', 'xsimd::fnms(x, y, z)')]
C16_UN = [('neg', '-x'), ('conj', 'xsimd::conj(x)'), ('proj', 'xsimd::proj(x)')]


def c16(archs, mem_archs):
    ks = []
    for ty in FTYPES:
        ct = TYPES[ty][0]
        for arch in archs:
            b = B(ty, arch); cb = 'xsimd::batch<std::complex<%s>,%s>' % (ct, gen.cpp_arch(arch))
            def K_(op, nargs, expr, ret='v', comp=''):
                args = [('v', ty)] * (2 * nargs)
                pre = ' '.join('%s %s(%s, %s);' % (cb, 'xyz'[j], 'abcdef'[2 * j], 'abcdef'[2 * j + 1]) for j in range(nargs))
                e = '(%s)%s' % (expr, comp) if comp else expr
                return Kernel('C16', op, ty, arch, args, (ret, ty), e, variant=comp.strip('.()') if comp else '', meta={'nargs': nargs, 'comp': comp.strip('.()')}, pre=pre)
            for op, expr in C16_BIN:
                for comp in ('.real()', '.imag()'): ks.append(K_(op, 2, expr, comp=comp))
            for op, expr in C16_TER:
                for comp in ('.real()', '.imag()'): ks.append(K_(op, 3, expr, comp=comp))
            for op, expr in C16_UN:
                for comp in ('.real()', '.imag()'): ks.append(K_(op, 1, expr, comp=comp))
            ks.append(K_('real', 1, 'xsimd::real(x)')); ks.append(K_('imag', 1, 'xsimd::imag(x)')); ks.append(K_('norm', 1, 'xsimd::norm(x)'))
            ks.append(K_('eq', 2, 'x == y', ret='m')); ks.append(K_('ne', 2, 'x != y', ret='m'))
            for op in ('isnan', 'isinf', 'isfinite'): ks.append(K_(op, 1, 'xsimd::%s(x)' % op, ret='m'))
            # complex (op) real scalar-broadcast forms
            for op, sym in (('mulr', '*'), ('divr', '/'), ('addr', '+'), ('subr', '-')):
                for comp in ('real', 'imag'):
                    ks.append(Kernel('C16', op, ty, arch, [('v', ty)] * 3, ('v', ty), '(x %s %s(c)).%s()' % (sym, b, comp), variant=comp, meta={'nargs': 1, 'comp': comp, 'realop': True},
                                     pre='%s x(a, b);' % cb))
        for arch in mem_archs:
            b = B(ty, arch); cb = 'xsimd::batch<std::complex<%s>,%s>' % (ct, gen.cpp_arch(arch))
            for mode in ('aligned', 'unaligned'):
                for comp in ('real', 'imag'):
                    ks.append(Kernel('C16', 'cload_' + mode[:2], ty, arch, [('x', 'std::complex<%s> const* a' % ct)], ('v', ty), '%s::load_%s(a).%s()' % (cb, mode, comp), variant=comp,
                                     meta={'comp': comp, 'aligned': mode == 'aligned'}))
                ks.append(Kernel('C16', 'cstore_' + mode[:2], ty, arch, [('x', 'std::complex<%s>* a' % ct), ('v', ty), ('v', ty)], ('void', None), '%s(b, c).store_%s(a);' % (cb, mode),
                                 meta={'aligned': mode == 'aligned'}))
    return ks


# ---------------------------------------------------------------- C19 compile-time constant batches
def c19_packs(n, w, sg, tier, rng):
    """value packs (as Python ints in the signed/unsigned range of the type, kept small enough that + - * do not overflow a signed T)"""
    packs = {}
    pos = range(n) if (n <= 8 or tier == 'thorough') else sorted({0, 1, n // 2 - 1, n // 2, n - 2, n - 1})
    for p in pos:
        packs['onehot%d' % p] = [1 if i == p else 0 for i in range(n)]
        packs['allbut%d' % p] = [0 if i == p else 1 for i in range(n)]
    packs['alt'] = [i % 2 for i in range(n)]
    packs['arange'] = list(range(n)); packs['rev'] = list(reversed(range(n)))
    lim = min(1 << (w - 2), 1 << 14) if w > 8 else 11
    R = 3 if tier == 'quick' else 12
    for r in range(R):
        packs['rnd%d' % r] = [rng.randrange(-lim if sg else 0, lim) for _ in range(n)]
    return packs


def c19(archs, tier, seed):
    ks = []
    def lit(v, ty):
        ct, w, sg, cls = TYPES[ty]
        if w == 64: return '%d%s' % (v, 'LL' if sg else 'ULL')
        return '(%s)%d' % (ct, v)
    for arch in archs:
        ca = gen.cpp_arch(arch)
        for ty in ATYPES:
            ct, w, sg, cls = TYPES[ty]; n = lanes(ty, arch); ut = UT[w]
            rng = _random.Random('c19/%s/%d/%d' % (ty, n, seed))
            packs = c19_packs(n, w, sg and cls == 'int', tier, rng)
            names = list(packs)
            # boolean constants exist for every element type
            for nm in names:
                bits = [bool(v & 1) for v in packs[nm]]
                bc = 'xsimd::batch_bool_constant<%s, %s, %s>' % (ct, ca, ', '.join('true' if b else 'false' for b in bits))
                meta = {'bits': bits}
                ks.append(Kernel('C19', 'bool_as_batch', ty, arch, [], ('m', ty), '%s().as_batch_bool()' % bc, variant=nm, meta=meta))
                ks.append(Kernel('C19', 'bool_get', ty, arch, [('z', None)], ('bool', None), '%s().get(a)' % bc, variant=nm, meta=meta))
                if n <= 32:
                    ks.append(Kernel('C19', 'bool_mask', ty, arch, [], ('u64', None), '(uint64_t)(uint32_t)%s::mask()' % bc, variant=nm, meta=meta))
                ks.append(Kernel('C19', 'bool_not', ty, arch, [], ('m', ty), '(!%s()).as_batch_bool()' % bc, variant=nm, meta=meta))
                ks.append(Kernel('C19', 'bool_bnot', ty, arch, [], ('m', ty), '(~%s()).as_batch_bool()' % bc, variant=nm, meta=meta))
                ks.append(Kernel('C19', 'select_const', ty, arch, [('v', ty), ('v', ty)], ('v', ty), 'xsimd::select(%s(), a, b)' % bc, variant=nm, meta=meta))
                ks.append(Kernel('C19', 'select_rt', ty, arch, [('v', ty), ('v', ty)], ('v', ty), 'xsimd::select(%s().as_batch_bool(), a, b)' % bc, variant=nm, meta=meta))
            for j in range(0, len(names) - 1, 2):
                a_, b_ = names[j], names[j + 1]
                ba = [bool(v & 1) for v in packs[a_]]; bb = [bool(v & 1) for v in packs[b_]]
                ca_ = 'xsimd::batch_bool_constant<%s, %s, %s>' % (ct, ca, ', '.join('true' if b else 'false' for b in ba))
                cb_ = 'xsimd::batch_bool_constant<%s, %s, %s>' % (ct, ca, ', '.join('true' if b else 'false' for b in bb))
                for opn, sym in (('and', '&'), ('or', '|'), ('xor', '^'), ('land', '&&'), ('lor', '||')):
                    ks.append(Kernel('C19', 'bool_' + opn, ty, arch, [], ('m', ty), '(%s() %s %s()).as_batch_bool()' % (ca_, sym, cb_), variant='%s_%s' % (a_, b_), meta={'bits': ba, 'bits2': bb}))
            if cls != 'int': continue
            for nm in names:
                vals = packs[nm]
                bc = 'xsimd::batch_constant<%s, %s, %s>' % (ct, ca, ', '.join(lit(v, ty) for v in vals))
                meta = {'vals': vals}
                ks.append(Kernel('C19', 'as_batch', ty, arch, [], ('v', ty), '%s().as_batch()' % bc, variant=nm, meta=meta))
                ks.append(Kernel('C19', 'conv_batch', ty, arch, [], ('v', ty), '%s(%s())' % (B(ty, arch), bc), variant=nm, meta=meta))
                ks.append(Kernel('C19', 'get', ty, arch, [('z', None)], ('T', ty), '%s().get(a)' % bc, variant=nm, meta=meta))
                ks.append(Kernel('C19', 'neg', ty, arch, [], ('v', ty), '(-%s()).as_batch()' % bc, variant=nm, meta=meta))
                ks.append(Kernel('C19', 'bnot', ty, arch, [], ('v', ty), '(~%s()).as_batch()' % bc, variant=nm, meta=meta))
                if all(0 <= v < n for v in vals) and not sg:
                    # an index pack: constant-mask swizzle versus run-time-index swizzle of the converted batch, on symbolic data
                    ks.append(Kernel('C19', 'swizzle_xor', ty, arch, [('v', ty)], ('v', ty), 'xsimd::swizzle(a, %s()) ^ xsimd::swizzle(a, %s().as_batch())' % (bc, bc), variant=nm, meta=meta))
            for j in range(0, len(names) - 1, 2):
                a_, b_ = names[j], names[j + 1]
                va, vb = packs[a_], packs[b_]
                ca_ = 'xsimd::batch_constant<%s, %s, %s>' % (ct, ca, ', '.join(lit(v, ty) for v in va))
                cb_ = 'xsimd::batch_constant<%s, %s, %s>' % (ct, ca, ', '.join(lit(v, ty) for v in vb))
                for opn, sym in (('add', '+'), ('sub', '-'), ('mul', '*'), ('and', '&'), ('or', '|'), ('xor', '^'), ('div', '/'), ('mod', '%')):
                    if opn in ('div', 'mod') and any(v == 0 for v in vb): continue
                    ks.append(Kernel('C19', opn, ty, arch, [], ('v', ty), '(%s() %s %s()).as_batch()' % (ca_, sym, cb_), variant='%s_%s' % (a_, b_), meta={'vals': va, 'vals2': vb}))
            # generators
            gens = {'arange': ('i', lambda i, n_: i), 'rev': ('n - 1 - i', lambda i, n_: n_ - 1 - i), 'const7': ('7', lambda i, n_: 7),
                    'quad': ('(i * i + 3 * i + 1) % 11', lambda i, n_: (i * i + 3 * i + 1) % 11), 'rot': ('(i + n - 1) % n', lambda i, n_: (i + n_ - 1) % n_)}
            for gname, (cexpr, pyf) in gens.items():
                pre = 'struct G { static constexpr %s get(std::size_t i, std::size_t n) { return (%s)(%s); } };' % (ct, ct, cexpr)
                ks.append(Kernel('C19', 'make_const', ty, arch, [], ('v', ty), 'xsimd::make_batch_constant<%s, G, %s>().as_batch()' % (ct, ca), variant=gname, meta={'vals': [pyf(i, n) for i in range(n)]}, pre=pre))
            pre = 'struct G { static constexpr bool get(std::size_t i, std::size_t n) { return (i %% 3) == 1 || i == n - 1; } };'
            ks.append(Kernel('C19', 'make_bool_const', ty, arch, [], ('m', ty), 'xsimd::make_batch_bool_constant<%s, G, %s>().as_batch_bool()' % (ct, ca), variant='g3', meta={'bits': [(i % 3) == 1 or i == n - 1 for i in range(n)]}, pre=pre.replace('%%', '%')))
    return ks
