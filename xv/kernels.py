"""Kernel tables: which (operation, type, arch) wrappers each property instantiates."""
from .gen import Kernel, ITYPES, FTYPES, ATYPES, TYPES, ALL_ARCHS, CORE_ARCHS, lanes, is_avx512, B, BB


def V(t): return ('v', t)
def M(t): return ('m', t)


# ---------------------------------------------------------------- C01 integer arithmetic
C01_OPS = [
    # op, args, ret, expr
    ('add', 'vv', 'v', 'a + b'), ('sub', 'vv', 'v', 'a - b'), ('mul', 'vv', 'v', 'a * b'),
    ('neg', 'v', 'v', '-a'), ('abs', 'v', 'v', 'xsimd::abs(a)'),
    ('min', 'vv', 'v', 'xsimd::min(a, b)'), ('max', 'vv', 'v', 'xsimd::max(a, b)'),
    ('incr', 'v', 'v', 'xsimd::incr(a)'), ('decr', 'v', 'v', 'xsimd::decr(a)'),
    ('incr_if', 'vm', 'v', 'xsimd::incr_if(a, b)'), ('decr_if', 'vm', 'v', 'xsimd::decr_if(a, b)'),
    ('fma', 'vvv', 'v', 'xsimd::fma(a, b, c)'), ('fms', 'vvv', 'v', 'xsimd::fms(a, b, c)'),
    ('fnma', 'vvv', 'v', 'xsimd::fnma(a, b, c)'), ('fnms', 'vvv', 'v', 'xsimd::fnms(a, b, c)'),
    ('div', 'vv', 'v', 'a / b'), ('mod', 'vv', 'v', 'a % b'),
    ('sign', 'v', 'v', 'xsimd::sign(a)'),
    ('sadd', 'vv', 'v', 'xsimd::sadd(a, b)'), ('ssub', 'vv', 'v', 'xsimd::ssub(a, b)'),
    ('avg', 'vv', 'v', 'xsimd::avg(a, b)'), ('avgr', 'vv', 'v', 'xsimd::avgr(a, b)'),
    ('adds', 'vT', 'v', 'a + b'), ('muls', 'vT', 'v', 'a * b'),   # batch (op) scalar forms: broadcast + op
]


def mk(prop, op, sig, ret, expr, ty, arch, variant='', meta=None, rty=None, pre=''):
    args = []
    for ch in sig:
        if ch == 'v': args.append(('v', ty))
        elif ch == 'm': args.append(('m', ty))
        elif ch == 's': args.append(('s', None))
        elif ch == 'z': args.append(('z', None))
        elif ch == 'T': args.append(('T', ty))
        elif ch == 'q': args.append(('q', ty))
        elif ch == 'p': args.append(('p', ty))
    r = (ret, rty or ty) if ret in ('v', 'm', 'T') else (ret, None)
    return Kernel(prop, op, ty, arch, args, r, expr, variant, meta, pre)


def c01(archs, types=ITYPES):
    ks = []
    for arch in archs:
        for ty in types:
            for op, sig, ret, expr in C01_OPS:
                ks.append(mk('C01', op, sig, ret, expr, ty, arch))
    return ks


# ---------------------------------------------------------------- C07 bitwise / shifts / rotates
C07_OPS = [
    ('and', 'vv', 'v', 'a & b'), ('or', 'vv', 'v', 'a | b'), ('xor', 'vv', 'v', 'a ^ b'), ('not', 'v', 'v', '~a'),
    ('andnot', 'vv', 'v', 'xsimd::bitwise_andnot(a, b)'),
    ('shl', 'vs', 'v', 'a << b'), ('shr', 'vs', 'v', 'a >> b'),
    ('shlv', 'vv', 'v', 'a << b'), ('shrv', 'vv', 'v', 'a >> b'),
    ('rotl', 'vs', 'v', 'xsimd::rotl(a, b)'), ('rotr', 'vs', 'v', 'xsimd::rotr(a, b)'),
    ('rotlv', 'vv', 'v', 'xsimd::rotl(a, b)'), ('rotrv', 'vv', 'v', 'xsimd::rotr(a, b)'),
]


def c07(archs, types=ITYPES):
    return [mk('C07', op, sig, ret, expr, ty, arch) for arch in archs for ty in types for op, sig, ret, expr in C07_OPS]


# ---------------------------------------------------------------- C03 comparisons / masks / select
C03_OPS = [
    ('eq', 'vv', 'm', 'a == b'), ('ne', 'vv', 'm', 'a != b'), ('lt', 'vv', 'm', 'a < b'), ('le', 'vv', 'm', 'a <= b'),
    ('gt', 'vv', 'm', 'a > b'), ('ge', 'vv', 'm', 'a >= b'),
    ('mand', 'mm', 'm', 'a & b'), ('mor', 'mm', 'm', 'a | b'), ('mxor', 'mm', 'm', 'a ^ b'),
    ('mnot', 'm', 'm', '~a'), ('mlnot', 'm', 'm', '!a'), ('meq', 'mm', 'm', 'a == b'), ('mne', 'mm', 'm', 'a != b'),
    ('mandnot', 'mm', 'm', 'xsimd::bitwise_andnot(a, b)'),
    ('mand2', 'mm', 'm', 'a && b'), ('mor2', 'mm', 'm', 'a || b'),
    ('mask', 'm', 'u64', 'a.mask()'),
    ('from_mask', 'z', 'm', '%(BB)s::from_mask(a)'),
    ('all', 'm', 'bool', 'xsimd::all(a)'), ('any', 'm', 'bool', 'xsimd::any(a)'), ('none', 'm', 'bool', 'xsimd::none(a)'),
    ('count', 'm', 'u64', 'xsimd::count(a)'),
    ('select', 'mvv', 'v', 'xsimd::select(a, b, c)'),
    ('mget', 'mz', 'bool', 'a.get(b)'),
    ('to01', 'm', 'v', '%(B)s(a)'),
    ('bool_rt', 'm', 'm', '%(BB)s::load_unaligned(buf)', 'bool buf[%(N)d]; a.store_unaligned(buf);'),
    ('bool_rt_al', 'm', 'm', '%(BB)s::load_aligned(buf)', 'alignas(64) bool buf[%(N)d]; a.store_aligned(buf);'),
    ('bool_load', 'x:bool const* a', 'm', '%(BB)s::load_unaligned(a)'),
    ('bool_store', 'x:bool* a|m', 'void', 'b.store_unaligned(a);'),
]


def c03(archs, types=ATYPES):
    ks = []
    for arch in archs:
        for ty in types:
            sub = dict(B=B(ty, arch), BB=BB(ty, arch), N=lanes(ty, arch), T=TYPES[ty][0])
            for row in C03_OPS:
                op, sig, ret, expr = row[:4]
                pre = (row[4] % sub) if len(row) > 4 else ''
                if sig.startswith('x:'):
                    k = Kernel('C03', op, ty, arch, [], (ret, ty if ret in 'vm' else None), expr % sub, '', None, pre)
                    parts = sig[2:].split('|')
                    k.args = [('x', parts[0])] + [('m', ty) for p_ in parts[1:]]
                    ks.append(k)
                else:
                    ks.append(mk('C03', op, sig, ret, expr % sub, ty, arch, pre=pre))
            # batch_bool_cast between same-width types
            for ty2 in ATYPES:
                if ty2 != ty and TYPES[ty2][1] == TYPES[ty][1]:
                    k = mk('C03', 'mcast', 'm', 'm', 'xsimd::batch_bool_cast<%s>(a)' % TYPES[ty2][0], ty, arch, variant=ty2, rty=ty2)
                    ks.append(k)
    return ks


# ---------------------------------------------------------------- C09 reductions
def c09(archs, types=ATYPES):
    ks = []
    for arch in archs:
        for ty in types:
            n = lanes(ty, arch); b = B(ty, arch)
            ks.append(mk('C09', 'reduce_add', 'v', 'T', 'xsimd::reduce_add(a)', ty, arch))
            ks.append(mk('C09', 'reduce_max', 'v', 'T', 'xsimd::reduce_max(a)', ty, arch))
            ks.append(mk('C09', 'reduce_min', 'v', 'T', 'xsimd::reduce_min(a)', ty, arch))
            pre = '%s::register_type xv_f(%s::register_type, %s::register_type);' % (b, b, b)
            ks.append(mk('C09', 'reduce', 'v', 'T', 'xsimd::reduce([](%s const& x, %s const& y) { return %s(xv_f(x.data, y.data)); }, a)' % (b, b, b), ty, arch, pre=pre,
                         meta={'replay_extra': '%s::register_type xv_f(%s::register_type x, %s::register_type y) { return (%s(x) + %s(y)).data; }' % (b, b, b, b, b)}))
            if TYPES[ty][3] == 'fp':
                pre = '%s rows[%d]; for (int i = 0; i < %d; ++i) rows[i] = %s::load_unaligned(a + i * %d);' % (b, n, n, b, n)
                ks.append(mk('C09', 'haddp', 'q', 'v', 'xsimd::haddp(rows)', ty, arch, pre=pre))
    return ks
