"""Property runner: generate -> lower -> parse -> (dedup) -> symbolic execution -> obligations -> solver -> replay -> evidence."""
import os, sys, re, json, time, hashlib, shutil, tempfile, subprocess, traceback, random, collections
import multiprocessing as mp
import z3
from . import llir, gen, symex, harness
from .symex import F, Unsupported, EncoderError, is_c, mask
from .gen import TYPES, lanes

VERIF = os.path.dirname(os.path.dirname(os.path.abspath(__file__)))
KNOWN = os.path.join(VERIF, 'known_findings.json')


class JobBudget(Exception):
    pass


class Oblig:
    def __init__(s, name, pre, post_fn, lane=None, rename=None, region_args=None, kind='spec', replay_fn=None, steer_fn=None):
        s.name = name; s.pre = pre; s.post_fn = post_fn; s.lane = lane; s.rename = rename
        s.steer_fn = steer_fn         # optional search for a reproducible witness after a spurious model: (decider, assumptions, goal, model, run, rdir) -> (verdict, info)
        s.replay_fn = replay_fn       # optional custom native confirmation: (model, run, rdir) -> (True violated | False spurious | None no replay, info dict)
        s.region_args = region_args   # operands handed to known-finding region predicates
        s.kind = kind


# ---------------------------------------------------------------- known findings
REGIONS = {}


def region(name):
    def deco(fn):
        REGIONS[name] = fn; return fn
    return deco


@region('any')
def _any(k, *a):
    return z3.BoolVal(True)


def load_known():
    if not os.path.exists(KNOWN): return []
    return json.load(open(KNOWN)).get('findings', [])


def match_known(known, prop, k):
    out = []
    for e in known:
        if e.get('status') != 'known': continue
        if e['property'] != prop: continue
        if e.get('ops') and k.op not in e['ops']: continue
        if e.get('types') and k.ty not in e['types']: continue
        if e.get('archs') and k.arch not in e['archs']: continue
        if e.get('variants') and k.variant not in e['variants']: continue
        out.append(e)
    return out


# ---------------------------------------------------------------- worker
_mods = {}
_W = {}


def get_mod(path):
    if path not in _mods:
        _mods[path] = llir.parse_module(open(path).read())
    return _mods[path]


def native_res(k, raw):
    """raw bytes of the native return value -> structure shaped like harness.result_lanes with concrete values"""
    if getattr(raw, 'mem', None):
        mem = raw.mem
        val = native_res(k, bytes(raw))
        def byte(arg, off):
            lo, bs = mem[arg]
            return bs[off - lo]
        return harness.MemView(val, byte)
    rk, rty = k.ret
    if rk == 'v':
        w = TYPES[rty][1]; n = lanes(rty, k.arch)
        vals = [int.from_bytes(raw[i * w // 8:(i + 1) * w // 8], 'little') for i in range(n)]
        return [harness.wrap_lane(rty, v) for v in vals]
    if rk == 'm':
        w = TYPES[rty][1]; n = lanes(rty, k.arch)
        if gen.is_avx512(k.arch):
            v = int.from_bytes(raw, 'little')
            return [('k', (v >> i) & 1) for i in range(n)]
        return [('v', int.from_bytes(raw[i * w // 8:(i + 1) * w // 8], 'little')) for i in range(n)]
    if rk == 'bool': return bool(raw[0] & 1)
    if rk == 'u64': return int.from_bytes(raw[:8], 'little')
    if rk == 'T':
        w = TYPES[rty][1]
        return harness.wrap_lane(rty, int.from_bytes(raw[:w // 8], 'little'))
    return None


class NativeRaw(bytes):
    """native return bytes + dumped memory windows {arg: (lo offset, bytes)}"""
    def __new__(cls, b):
        o = bytes.__new__(cls, b); o.mem = {}; return o


REPLAY_MAIN = r'''
#include <cstdio>
#include <cstring>
#include <cstdint>
template <class T> static T mk(const unsigned char* p){ T t; std::memcpy(&t, p, sizeof(T)); return t; }
int main(){
%(decl)s
%(call)s
  return 0;
}
'''


def replay_source(k, inputs):
    """C++ program calling the wrapper on the model's inputs; prints result bytes as hex"""
    decl = []; callargs = []; ptrs = []
    for (kind, ty), nm in zip(k.args, 'abcdefgh'):
        if kind == 'v':
            w = TYPES[ty][1]; bs = b''.join(int(v).to_bytes(w // 8, 'little') for v in inputs[nm])
            decl.append('  static const unsigned char %s_raw[] = {%s};' % (nm, ','.join(str(x) for x in bs)))
            callargs.append('mk<%s::register_type>(%s_raw)' % (gen.B(ty, k.arch), nm))
        elif kind == 'm':
            w = TYPES[ty][1]; n = len(inputs[nm])
            if gen.is_avx512(k.arch):
                v = sum((1 << i) for i, b in enumerate(inputs[nm]) if b)
                callargs.append('(%s::register_type)%dULL' % (gen.BB(ty, k.arch), v))
            else:
                bs = b''.join((mask(w) if b else 0).to_bytes(w // 8, 'little') for b in inputs[nm])
                decl.append('  static const unsigned char %s_raw[] = {%s};' % (nm, ','.join(str(x) for x in bs)))
                callargs.append('mk<%s::register_type>(%s_raw)' % (gen.BB(ty, k.arch), nm))
        elif kind == 's': callargs.append('(int)%dLL' % symex.tosigned(inputs[nm], 32))
        elif kind == 'b': callargs.append('true' if inputs[nm] else 'false')
        elif kind == 'z': callargs.append('%dULL' % inputs[nm])
        elif kind == 'T':
            w = TYPES[ty][1]; bs = int(inputs[nm]).to_bytes(w // 8, 'little')
            decl.append('  static const unsigned char %s_raw[] = {%s};' % (nm, ','.join(str(x) for x in bs)))
            callargs.append('mk<%s>(%s_raw)' % (TYPES[ty][0], nm))
        elif kind in ('p', 'q', 'x'):
            v = inputs[nm]
            if not isinstance(v, dict):
                callargs.append('%dULL' % v); continue
            # a page-aligned arena; the pointer gets the model's offset within a 4096-byte page, bytes are placed at their offsets
            lo = min(list(v['bytes']) + [0]); hi = max(list(v['bytes']) + [0]) + 1
            pad = 4096 * (1 + (-lo + 4095) // 4096)
            size = pad + 4096 + hi + 4096
            pos = pad + (v['base'] % 4096)
            decl.append('  alignas(4096) static unsigned char %s_buf[%d]; std::memset(%s_buf, 0xA5, sizeof(%s_buf));' % (nm, size, nm, nm))
            for o, b in sorted(v['bytes'].items()):
                decl.append('  %s_buf[%d] = %d;' % (nm, pos + o, b))
            cty = (TYPES[ty][0] if ty in TYPES else ty) if kind != 'x' else None
            if kind == 'x':
                cty = ty.rsplit(' ', 1)[0].replace('const', '').replace('*', '').strip()
            callargs.append('(%s*)(%s_buf + %d)' % (cty, nm, pos))
            ptrs.append((nm, pos, lo, hi))
        else:
            return None
    rk = k.ret[0]
    if rk == 'void':
        call = '  %s(%s);\n  std::printf("\\n");' % (k.fname, ', '.join(callargs))
    else:
        call = '  auto r = %s(%s);\n  unsigned char out[sizeof(r)]; std::memcpy(out, &r, sizeof(r));\n  for (size_t i = 0; i < sizeof(r); ++i) std::printf("%%02x", out[i]);\n  std::printf("\\n");' % (k.fname, ', '.join(callargs))
    for nm, pos, lo, hi in ptrs:
        # dump a window around the pointer: [lo-128, hi+128)
        call += '\n  std::printf("MEM %s %d ");  for (int i = %d; i < %d; ++i) std::printf("%%02x", %s_buf[i]);  std::printf("\\n");' % (nm, lo - 128, pos + lo - 128, pos + hi + 128, nm)
    extra = k.meta.get('replay_extra', '')
    return gen.PRELUDE + k.cpp() + '\n' + extra + '\n' + REPLAY_MAIN % dict(decl='\n'.join(decl), call=call)


def native_run(k, inputs, outdir, tag='replay'):
    """compile + run the wrapper natively -> raw result bytes | None (not runnable) ; writes sources to outdir"""
    src = replay_source(k, inputs)
    if src is None: return None, 'no-replay-for-signature'
    os.makedirs(outdir, exist_ok=True)
    cpp = os.path.join(outdir, tag + '.cpp'); exe = os.path.join(outdir, tag + '.bin')
    open(cpp, 'w').write(src)
    flags = [f for f in gen.native_flags(k.arch) if not f.startswith('-I')] + ['-I' + gen.REPO + '/include']
    if k.arch.startswith('emu'): flags.append('-DXSIMD_WITH_EMULATED=1')
    runsh = os.path.join(outdir, 'run.sh')
    open(runsh, 'w').write('#!/bin/sh\n# rebuilds the wrapper from the current /repo headers and prints the native result bytes\ncd "$(dirname "$0")" && %s %s %s.cpp -o %s.bin && ./%s.bin\n' % (gen.CLANG, ' '.join(flags), tag, tag, tag))
    os.chmod(runsh, 0o755)
    p = subprocess.run([gen.CLANG] + flags + [cpp, '-o', exe], capture_output=True, text=True)
    if p.returncode != 0: return None, 'compile failed: ' + p.stderr[:300]
    if not (k.arch.startswith('emu') or gen.ARCH[k.arch][3]): return None, 'host cannot execute ' + k.arch
    try:
        q = subprocess.run([exe], capture_output=True, text=True, timeout=20)
    except subprocess.TimeoutExpired:
        return None, 'timeout'
    if q.returncode != 0: return None, 'exit %d' % q.returncode
    lines = q.stdout.split('\n')
    raw = NativeRaw(bytes.fromhex(lines[0].strip()))
    for l in lines[1:]:
        if l.startswith('MEM '):
            _, nm, lo, hx = l.split(' ', 3)
            raw.mem[nm] = (int(lo), bytes.fromhex(hx.strip()))
    return raw, 'ok'


def show_inputs(inputs):
    out = {}
    for a, v in inputs.items():
        if isinstance(v, list): out[a] = [hex(x) if not isinstance(x, bool) else x for x in v]
        elif isinstance(v, dict): out[a] = dict(base=hex(v['base']), bytes=' '.join('%d:%02x' % (o, b) for o, b in sorted(v['bytes'].items())[:96]))
        else: out[a] = v
    return out


def subst_model(expr, model):
    return z3.simplify(model.eval(expr, model_completion=True))


def eval_post_native(ob, nres, model):
    """evaluate post(native result) under the model's inputs -> True/False/None"""
    try:
        g = ob.post_fn(nres)
    except Exception as e:
        return None
    if isinstance(g, bool): return g
    v = subst_model(g, model)
    if z3.is_true(v): return True
    if z3.is_false(v): return False
    return None


def work_one(job):
    """job: dict(prop, kernel, members, llpath, tier, timeout, replay_dir)"""
    prop = job['prop']; k = job['kernel']
    P = _W['props'][prop]
    rec = dict(kernel=k.name, op=k.op, ty=k.ty, arch=k.arch, variant=k.variant, members=job['members'], status='ok',
               obligations=0, discharged=0, undecided=[], violations=[], known=[], ubnotes=[], unconfirmed=[],
               queries=0, by_simplifier=0, by_search=0, dedup=0, solver_s=0.0, enc_s=0.0, steps=0, forks=0,
               samples=[], max_trip=0, intrinsics=[], internal=None)
    t0 = time.time()
    budget = getattr(P, 'JOB_BUDGET', {}).get(job['tier'])
    import signal
    if budget:
        def _alarm(sig, frm): raise JobBudget()
        signal.signal(signal.SIGALRM, _alarm); signal.alarm(int(budget))
    try:
        mod = get_mod(job['llpath'])
        opts = P.exec_opts(k) if hasattr(P, 'exec_opts') else {}
        run = harness.Run(k, mod, fname=k.fname, assume_fn=getattr(P, 'assume', None), **opts)
        ex = run.ex
        rec['enc_s'] = run.enc_s; rec['steps'] = ex.steps; rec['forks'] = ex.forks; rec['max_trip'] = ex.max_trip
        rec['intrinsics'] = sorted(ex.intrinsics_used)
        rec['lemmas'] = sorted(ex.lemmas_used)
        obs = P.obligations(run)
        # executor-internal obligations (in-bounds, alignment, unwinding)
        for kind, pc, cond, info in ex.obligs:
            if kind == 'unreachable': continue
            if kind in getattr(P, 'IGNORE_INTERNAL', ()):
                rec['truncated'] = rec.get('truncated', 0) + 1; continue
            rf = P.internal_replay(kind, info) if hasattr(P, 'internal_replay') else None
            obs.append(Oblig('%s: %s' % (kind, info), z3.And(*pc) if pc else True, (lambda c: (lambda res: c))(cond), kind=kind, replay_fn=rf))
        dec = harness.Decider(timeout_s=job['timeout'])
        known = match_known(_W['known'], prop, k)
        reported_known = set()
        goals = [ob.post_fn(run.res) for ob in obs]     # may introduce side facts about fresh symbols (NaN payload bits): build before `base`
        base = list(ex.assume) + list(ex.side)
        if getattr(P, 'NAME_MEMORY_BYTES', False):
            goals, obs, base = name_memory_bytes(ex, goals, obs, base)
        for ob, goal in zip(obs, goals):
            rec['obligations'] += 1
            pre = [ob.pre] if not (ob.pre is True) else []
            status = decide_one(dec, rec, k, run, ob, base, pre, goal, known, reported_known, job)
            if status == 'discharged': rec['discharged'] += 1
        rec.update(queries=dec.queries, by_simplifier=dec.by_simplifier, by_search=dec.by_search, dedup=dec.dedup,
                   solver_s=dec.solver_s, samples=dec.samples)
        vf = job.get('valfile')
        if vf and ex.fpmode == 'exact':
            if budget: signal.alarm(0)
            from . import validate
            tv = time.time()
            rec['validation'] = validate.check_body(run, k, obs, goals, validate.wait_result(vf, k.name), budget_s=getattr(P, 'VAL_BUDGET', 30))
            rec['validation']['seconds'] = round(time.time() - tv, 2)
        if ex.fmf_seen: rec['fmf'] = list(set(map(str, ex.fmf_seen)))
    except JobBudget:
        # wall-clock budget of this kernel body exhausted: whatever was not decided yet is undecided (never a pass)
        rec['status'] = 'budget'; rec['undecided'].append('kernel budget of %d s exhausted after %d of %d obligations' % (budget, rec['discharged'], rec['obligations']))
    except Unsupported as e:
        rec['status'] = 'unsupported'; rec['internal'] = str(e)
    except Exception as e:
        rec['status'] = 'error'; rec['internal'] = '%s: %s\n%s' % (type(e).__name__, e, traceback.format_exc()[-1500:])
    if budget:
        signal.alarm(0)
    rec['wall_s'] = time.time() - t0
    return rec


def decide_one(dec, rec, k, run, ob, base, pre, goal, known, reported_known, job):
    ex = run.ex
    name = '%s[%s]' % (ob.name, ob.lane) if ob.lane is not None else ob.name
    # known-finding regions: report if still present, then prove the complement
    excl = []
    for e in known:
        if e.get('oblig') and not re.search(e['oblig'], ob.name): continue
        if ob.region_args is None: continue
        reg = REGIONS[e['region']](k, *ob.region_args)
        r, m = dec.check(base + pre + [reg], goal, None, name + ' (known region)')
        if r == 'sat':
            if e['id'] not in reported_known:
                reported_known.add(e['id']); rec['known'].append(dict(id=e['id'], what=e['what'], where=name))
        excl.append(z3.Not(reg))
    attempts = 0
    extra = list(excl)
    first_key = None; ub_refined = False
    final = rec.setdefault('_final', {})

    def fin(status):
        nonlocal first_key
        if first_key is not None: final[first_key] = status
        return status
    while True:
        attempts += 1
        r, m = dec.check(base + pre + extra, goal, ob.rename, name)
        if attempts == 1: first_key = dec.last_key
        if r == 'unsat':
            return fin('discharged')
        if r == 'unknown':
            rec['undecided'].append(name); return fin('undecided')
        if r == 'sat-dup':
            # alpha-equivalent to a lane already decided in this body: inherit that lane's final status
            stt = final.get(dec.last_key, 'violated-dup')
            if stt == 'undecided': rec['undecided'].append(name + ' (as its twin lane)')
            elif stt != 'discharged': rec.setdefault('violated_dup', []).append(name)
            return stt
        # sat: is the counterexample inside a UB-tagged region?
        ubhit = [txt for cond, txt in ex.ub if z3.is_true(subst_model(cond, m))]
        if ubhit and not ub_refined and ex.ubvals:
            # refine: out-of-range shift results range over the two x86 lowerings instead of being arbitrary
            ub_refined = True
            extra = extra + [z3.Or(*[fv == c for c in cands]) for fv, cands in ex.ubvals]
            rec['ubnotes'].append(dict(where=name, what=sorted(set(ubhit)) + ['re-proved with the result restricted to the saturating / count-masking x86 lowerings']))
            continue
        if ubhit:
            # still failing: believe it only if the native code reproduces it
            inputs = harness.model_inputs(m, run.desc, run.ex)
            rdir = os.path.join(job['replay_root'], '%s__%s' % (k.name, re.sub(r'\W+', '_', name))[:120])
            if ob.replay_fn is not None:
                verdict, info = ob.replay_fn(m, run, rdir)
                if verdict:
                    cex = dict(where=name, replay=rdir, inputs=info.get('inputs', {}), native=info.get('native', ''), ub=sorted(set(ubhit)))
                    json.dump(dict(kernel=k.name, obligation=name, property=job['prop'], **info), open(os.path.join(rdir, 'counterexample.json'), 'w'), indent=1, default=str)
                    rec['violations'].append(cex)
                    return fin('violated')
                raw = None
            else:
                raw, why = native_run(k, inputs, rdir)
            if raw is not None and eval_post_native(ob, native_res(k, raw), m) is False:
                cex = dict(where=name, inputs=show_inputs(inputs), replay=rdir, native=raw.hex(), ub=sorted(set(ubhit)))
                json.dump(dict(kernel=k.name, obligation=name, inputs=cex['inputs'], native_result=raw.hex(), property=job['prop'], ub=cex['ub']), open(os.path.join(rdir, 'counterexample.json'), 'w'), indent=1)
                rec['violations'].append(cex)
                return fin('violated')
            exc = [z3.Not(cond) for cond, txt in ex.ub if txt in ubhit and not z3.is_true(z3.simplify(cond))]
            if not exc:
                # the tagged condition is unconditional (nothing to exclude): the model simply does not reproduce
                rec.setdefault('spurious', []).append(dict(where=name, inputs=show_inputs(inputs), why='model does not reproduce natively'))
                rec['undecided'].append(name + ' (depends on undefined lanes; model does not reproduce natively)'); return fin('undecided')
            rec['ubnotes'].append(dict(where=name, what=sorted(set(ubhit)) + ['region excluded: native result satisfies the post-condition']))
            extra = extra + exc
            if attempts > 6:
                rec['undecided'].append(name + ' (ub regions)'); return fin('undecided')
            continue
        inputs = harness.model_inputs(m, run.desc, run.ex)
        rdir = os.path.join(job['replay_root'], '%s__%s' % (k.name, re.sub(r'\W+', '_', name))[:120])
        runk = k
        if ob.replay_fn is not None:
            verdict, info = ob.replay_fn(m, run, rdir)
            cex = dict(where=name, replay=rdir, inputs=info.get('inputs', {}), native=info.get('native', ''), why=info.get('why'))
            if verdict is None:
                rec['unconfirmed'].append(cex); return fin('unconfirmed')
            os.makedirs(rdir, exist_ok=True)
            json.dump(dict(kernel=k.name, obligation=name, property=job['prop'], **{kk: vv for kk, vv in info.items()}), open(os.path.join(rdir, 'counterexample.json'), 'w'), indent=1, default=str)
            if verdict:
                rec['violations'].append(cex); return fin('violated')
            rec.setdefault('spurious', []).append(cex)
            if ob.steer_fn is not None:
                verdict, info = ob.steer_fn(dec, base + pre + extra, goal, m, run, rdir)
                if verdict:
                    rdir = info.get('rdir', rdir)
                    cex = dict(where=name, replay=rdir, inputs=info.get('inputs', {}), native=info.get('native', ''), why=info.get('why'))
                    json.dump(dict(kernel=k.name, obligation=name, property=job['prop'], **{kk: vv for kk, vv in info.items()}), open(os.path.join(rdir, 'counterexample.json'), 'w'), indent=1, default=str)
                    rec['violations'].append(cex); return fin('violated')
            rec['undecided'].append(name + ' (model does not reproduce natively)'); return fin('undecided')
        # prefer a member the host can execute
        raw, why = native_run(runk, inputs, rdir)
        cex = dict(where=name, inputs=show_inputs(inputs), replay=rdir)
        if raw is None:
            cex['why'] = why
            rec['unconfirmed'].append(cex)
            return fin('unconfirmed')
        nres = native_res(k, raw)
        ok = eval_post_native(ob, nres, m)
        cex['native'] = raw.hex()
        json.dump(dict(kernel=k.name, obligation=name, inputs=cex['inputs'], native_result=raw.hex(), property=job['prop'],
                       note='run.sh rebuilds the wrapper from /repo and prints the native result; the obligation is violated by it'),
                  open(os.path.join(rdir, 'counterexample.json'), 'w'), indent=1)
        if ok is False:
            rec['violations'].append(cex)
            return fin('violated')
        # native result satisfies the post-condition: spurious model (over-approximation or encoder defect)
        cex['why'] = 'model does not reproduce natively (post holds on native result)'
        rec.setdefault('spurious', []).append(cex)
        if attempts > 4:
            rec['undecided'].append(name + ' (spurious models)'); return fin('undecided')
        # block this input assignment and retry
        blk = []
        for d in run.desc:
            if d['kind'] == 'v': blk += [x == m.eval(x, model_completion=True) for x in d['lanes']]
            elif d['kind'] == 'm': blk += [b == m.eval(b, model_completion=True) for b in d['bools']]
            elif d['kind'] in ('s', 'z', 'T', 'b'): blk.append(d['sym'] == m.eval(d['sym'], model_completion=True))
        extra = extra + [z3.Not(z3.And(*blk))] if blk else extra


def name_memory_bytes(ex, goals, obs, base):
    """every byte read from caller memory, Select(MEM0, addr), is given a name (a fresh 8-bit constant tied to the Select by an equality
    in the assumptions) and the goals / preconditions are rewritten over the names: the FP / bit-vector reasoning then never meets the
    array theory.  Equivalent formula (definitional extension); models still assign MEM0, so replays are unaffected."""
    names = {}; pairs = []; defs = []
    def collect(e, seen):
        st = [e]
        while st:
            x = st.pop()
            i = x.get_id()
            if i in seen: continue
            seen.add(i)
            if z3.is_app_of(x, z3.Z3_OP_SELECT) and x.arg(0).eq(ex.ext0):
                key = z3.simplify(x.arg(1)).sexpr()
                if key not in names:
                    names[key] = z3.BitVec('membyte!%d' % len(names), 8)
                    defs.append(names[key] == x)
                pairs.append((x, names[key]))
            else:
                st.extend(x.children())
    seen = set()
    for g in goals:
        if not isinstance(g, bool): collect(g, seen)
    for ob in obs:
        if ob.pre is not True: collect(ob.pre, seen)
    if not pairs: return goals, obs, base
    goals = [g if isinstance(g, bool) else z3.substitute(g, *pairs) for g in goals]
    for ob in obs:
        if ob.pre is not True: ob.pre = z3.substitute(ob.pre, *pairs)
    for d in defs: harness.LAZY_IDS.add(d.get_id())
    _KEEP.extend(defs)      # keep the ASTs alive so that their ids stay unique
    return goals, obs, base + defs


_KEEP = []


def _init_worker(props_modnames, known):
    import importlib
    _W['props'] = {p: importlib.import_module(m) for p, m in props_modnames.items()}
    _W['known'] = known
    z3.set_param('parallel.enable', False)


# ---------------------------------------------------------------- lemmas used by the encoder, proved on every run
def prove_lemma(spec):
    name, op, w, n = spec
    t0 = time.time()
    a = z3.BitVec('a', w); b = z3.BitVec('b', w)
    if name == 'narrow_div':
        sg = op[0] == 's'
        mk = {'udiv': z3.UDiv, 'urem': z3.URem, 'sdiv': lambda x, y: x / y, 'srem': z3.SRem}[op]
        ext = (lambda x: z3.SignExt(n - w, x)) if sg else (lambda x: z3.ZeroExt(n - w, x))
        pre = b != 0
        if sg: pre = z3.And(pre, z3.Not(z3.And(a == (1 << (w - 1)), b == mask(w))))
        goal = mk(ext(a), ext(b)) == ext(mk(a, b))
    else:
        return dict(lemma=spec, result='unknown lemma', seconds=0)
    sol = z3.SolverFor('QF_BV'); sol.set('timeout', 900000)
    sol.add(pre, z3.Not(goal))
    r = sol.check()
    return dict(lemma=list(spec), result=str(r), seconds=round(time.time() - t0, 2))


# ---------------------------------------------------------------- driver
def group_kernels(kernels, mods_by_tu, tu_of):
    """dedup by (normalised body, op, variant, type, mask representation)"""
    groups = collections.OrderedDict()
    missing = []
    for k in kernels:
        path = tu_of.get(k.name)
        if path is None:
            missing.append(k.name); continue
        mod = mods_by_tu[path]
        f = mod.funcs.get('@' + k.name)
        if f is None:
            missing.append(k.name); continue
        h = hashlib.sha1(llir.normalized_body(f).encode()).hexdigest()[:16]
        # callee bodies matter too: include names of called non-intrinsic functions' bodies
        callees = sorted(set(re.findall(r'call [^@]*(@_Z\w+)', '\n'.join(f.text))))
        for c in callees:
            g = mod.funcs.get(c)
            if g is not None:
                h += hashlib.sha1(llir.normalized_body(g).encode()).hexdigest()[:8]
        key = (h, k.op, k.variant, k.ty, gen.is_avx512(k.arch) if not k.arch.startswith('emu') else k.arch, lanes(k.ty, k.arch))
        groups.setdefault(key, []).append(k)
    return groups, missing


def run_property(prop, P, tier, seed, modname, timeout=None, jobs=None, keep=False):
    t0 = time.time()
    random.seed(seed)
    jobs = jobs or min(16, os.cpu_count() or 4)
    timeout = timeout or getattr(P, 'TIMEOUT', {}).get(tier) or (20 if tier == 'quick' else 300)
    os.environ['XV_TIER'] = tier       # inherited by the worker processes
    work = tempfile.mkdtemp(prefix='xv_%s_' % prop)
    replay_root = os.path.join(os.environ.get('XV_REPLAY_ROOT') or os.path.join(VERIF, 'replays'), prop)
    shutil.rmtree(replay_root, ignore_errors=True)
    try:
        kernels = P.kernels(tier, seed)
        only = os.environ.get('XV_ONLY')
        if only:
            kernels = [k for k in kernels if re.search(only, k.name)]
        tu_paths, dropped = gen.lower(kernels, work, extra_flags=getattr(P, 'EXTRA_FLAGS', ()), jobs=jobs, fexc=getattr(P, 'FEXC', False))
        t_lower = time.time() - t0
        # parse (parallel) to find which TU has which function, and dedup
        with mp.Pool(jobs) as pool:
            infos = pool.map(_scan_tu, list(tu_paths.values()))
        tu_of = {}; body_of = {}
        for path, names in infos:
            for nm, h in names.items():
                tu_of[nm] = path; body_of[nm] = h
        groups = collections.OrderedDict(); missing = []
        for k in kernels:
            h = body_of.get(k.fname)
            if h is None:
                missing.append(k.name); continue
            key = (h, k.op, k.variant, k.ty, gen.is_avx512(k.arch) if not k.arch.startswith('emu') else k.arch, lanes(k.ty, k.arch))
            groups.setdefault(key, []).append(k)
        joblist = []
        for key, ks in groups.items():
            rep = next((x for x in ks if x.arch.startswith('emu') or gen.ARCH[x.arch][3]), ks[0])
            joblist.append(dict(prop=prop, kernel=rep, members=[x.arch for x in ks], llpath=tu_of[rep.fname], tier=tier,
                                timeout=timeout, replay_root=replay_root))
        valinfo = None
        if not os.environ.get('XV_NOVALIDATE') and not getattr(P, 'NO_VALIDATE', False):
            from . import validate
            where, nunsup = validate.native_batch([j['kernel'] for j in joblist], work, tier, seed, extra_flags=getattr(P, 'EXTRA_FLAGS', ()), fexc=getattr(P, 'FEXC', False))
            for j in joblist: j['valfile'] = where.get(j['kernel'].name)
            valinfo = dict(unsupported_signature=nunsup)
        P._valinfo = valinfo
        known = load_known()
        # longest first is unknown: shuffle deterministically for balance
        random.Random(seed).shuffle(joblist)
        if hasattr(P, 'job_priority'):
            joblist.sort(key=lambda j: -P.job_priority(j['kernel']))    # expected-longest first (stable: ties keep the shuffled order)
        with mp.Pool(jobs, initializer=_init_worker, initargs=({prop: modname}, known), maxtasksperchild=40) as pool:
            lem_specs = getattr(P, 'LEMMAS', [])
            lem_async = pool.map_async(prove_lemma, lem_specs, chunksize=1)
            recs = []
            prog = os.environ.get('XV_PROGRESS')
            for rec in pool.imap_unordered(work_one, joblist, chunksize=1):
                recs.append(rec)
                if prog:
                    with open(prog, 'a') as fh:
                        fh.write('%d/%d %-50s wall=%.1f enc=%.1f solver=%.1f obl=%d dis=%d search=%d steps=%d %s\n' % (len(recs), len(joblist), rec['kernel'], rec.get('wall_s', 0), rec['enc_s'], rec['solver_s'],
                                 rec['obligations'], rec['discharged'], rec['by_search'], rec['steps'], rec['status']))
            recs.sort(key=lambda r: r['kernel'])
            lemmas = lem_async.get()
        used = set()
        for r in recs: used |= set(map(tuple, r.get('lemmas', [])))
        proved = {tuple(l['lemma']) for l in lemmas if l['result'] == 'unsat'}
        bad = [l for l in lemmas if l['result'] != 'unsat'] + [dict(lemma=list(u), result='used but not in LEMMAS') for u in used - proved]
        if bad:
            print('INTERNAL-ERROR encoder lemma not proved: %r' % bad, file=sys.stderr)
            return 3
        P._lemmas_proved = lemmas
        return finish(prop, P, tier, seed, kernels, dropped, missing, recs, time.time() - t0, t_lower, replay_root)
    finally:
        if not keep: shutil.rmtree(work, ignore_errors=True)


def _scan_tu(path):
    mod = llir.parse_module(open(path).read())
    out = {}
    for nm, f in mod.funcs.items():
        if not nm.startswith('@k__'): continue
        h = hashlib.sha1(llir.normalized_body(f).encode()).hexdigest()[:16]
        callees = sorted(set(re.findall(r'(@_Z\w+)\(', '\n'.join(f.text[1:]))))
        seen = set()
        while callees:
            c = callees.pop()
            if c in seen: continue
            seen.add(c)
            g = mod.funcs.get(c)
            if g is not None:
                h += hashlib.sha1(llir.normalized_body(g).encode()).hexdigest()[:8]
                callees += re.findall(r'(@_Z\w+)\(', '\n'.join(g.text[1:]))
        out[nm[1:]] = hashlib.sha1(h.encode()).hexdigest()[:20]
    return path, out


def finish(prop, P, tier, seed, kernels, dropped, missing, recs, wall, t_lower, replay_root):
    nviol = 0; lines = []
    tot = collections.Counter()
    unsupported = []; errors = []; undec = []; ub = []; unconf = []; knownseen = {}
    samples = []
    covered = 0
    for r in recs:
        for key in ('obligations', 'discharged', 'queries', 'by_simplifier', 'by_search', 'dedup', 'steps', 'forks'):
            tot[key] += r[key]
        tot['solver_s'] += r['solver_s']; tot['enc_s'] += r['enc_s']
        if r['status'] == 'unsupported': unsupported.append((r['kernel'], r['internal']))
        elif r['status'] == 'error': errors.append((r['kernel'], r['internal']))
        elif r['status'] == 'budget': covered += len(r['members'])
        else: covered += len(r['members'])
        for u in r['undecided']: undec.append('%s: %s' % (r['kernel'], u))
        for u in r['ubnotes']: ub.append('%s: %s %s' % (r['kernel'], u['where'], u['what']))
        for u in r['unconfirmed']: unconf.append('%s: %s (%s)' % (r['kernel'], u['where'], u.get('why')))
        for kf in r['known']: knownseen.setdefault(kf['id'], (kf['what'], []))[1].append(r['kernel'])
        seen_v = set()
        for v in r['violations']:
            nviol += 1
            vk = re.sub(r'\[\d+\]$', '', v['where'])
            if vk in seen_v: continue
            seen_v.add(vk)
            lines.append('VIOLATION property=%s replay=%s  # %s %s inputs=%s native=%s' % (prop, v['replay'], r['kernel'], v['where'], json.dumps(v['inputs'])[:160], v.get('native', '')[:32]))
        if r['samples'] and len(samples) < 6: samples += r['samples'][:1]
    for kid, (what, where) in knownseen.items():
        lines.append('KNOWN-FINDING: property=%s %s [%s; seen in %d kernel bodies, e.g. %s]' % (prop, what, kid, len(where), where[0]))
    for u in ub[:20]: lines.append('UB-NOTE %s' % u)
    for u in unconf[:20]: lines.append('UNCONFIRMED %s' % u)
    internal = bool(errors)
    need = getattr(P, 'MIN_COVERED', {}).get(tier, 1) if not os.environ.get('XV_ONLY') else 1
    evidence = {
        'property_id': prop, 'tier': tier, 'seed': seed, 'level': 'model_checking',
        'coverage': {
            'obligations': tot['obligations'], 'discharged': tot['discharged'],
            'evaluations': tot['queries'], 'distinct_nontrivial': tot['by_search'],
            'states': max(tot['steps'], 1), 'transitions': max(tot['steps'] + tot['forks'], 1),
            'traces_validated_against_impl': sum(len(r['violations']) + len(r.get('spurious', [])) for r in recs),
            'states_rule': 'states = IR instructions executed symbolically (each is one symbolic state standing for every input value), transitions = those plus symbolic branch forks; traces_validated_against_impl = solver models replayed against the natively compiled wrapper',
            'rule': 'one obligation per (distinct kernel body, lane or memory cell, post-condition); an evaluation is one solver query over all operand bit patterns; non-trivial = not closed by the term simplifier alone (needed SAT/SMT search); lanes whose query is alpha-equivalent to an already decided lane of the same body are answered from cache (counted in lanes_deduplicated)',
            'samples': samples or [{'note': 'all obligations closed by the simplifier'}],
            'wrappers_generated': len(kernels), 'wrappers_rejected_by_library': len(dropped), 'wrappers_covered': covered,
            'distinct_bodies': len(recs), 'lanes_deduplicated': tot['dedup'],
            'closed_by_simplifier': tot['by_simplifier'], 'needed_search': tot['by_search'],
            'undecided': undec[:200], 'undecided_count': len(undec),
            'unsupported_bodies': [u[0] + ': ' + (u[1] or '')[:120] for u in unsupported][:200], 'unsupported_count': len(unsupported),
            'internal_errors': [e[0] + ': ' + (e[1] or '')[:300] for e in errors][:50],
            'ub_notes': ub[:200], 'unconfirmed': unconf[:100],
            'known_findings_seen': sorted(knownseen),
            'functions_encoded': sorted({r['op'] for r in recs if r['status'] == 'ok'}),
            'archs': sorted({a for r in recs for a in r['members']}),
            'intrinsic_models_used': sorted({i for r in recs for i in r['intrinsics']}),
            'ir_steps': tot['steps'], 'symbolic_forks': tot['forks'], 'max_symbolic_loop_trips': max([r['max_trip'] for r in recs] or [0]),
            'solver_seconds': round(tot['solver_s'], 2), 'encode_seconds': round(tot['enc_s'], 2), 'lower_seconds': round(t_lower, 2),
            'bounds': getattr(P, 'BOUNDS', ''),
            'encoder_lemmas_proved': getattr(P, '_lemmas_proved', []),
            'dropped_examples': [d[0][:160] + ' // ' + d[1][:100] for d in dropped[:10]],
        },
        'assumptions': getattr(P, 'ASSUMPTIONS', []),
        'wall_s': round(wall, 2), 'violations': nviol,
    }
    # translator validation (xv/validate.py): formula vs natively compiled wrapper on concrete inputs
    val = collections.Counter(); mism = []; valerr = []
    for r in recs:
        v = r.get('validation')
        if not v: continue
        val['bodies'] += 1
        for key in ('agreed', 'skipped_pre', 'trapped', 'inconclusive', 'solver', 'skipped_time'): val[key] += v.get(key, 0)
        if v.get('error'): valerr.append('%s: %s' % (r['kernel'], v['error']))
        for m_ in v.get('mismatches', []): mism.append(dict(kernel=r['kernel'], **m_))
    vi = getattr(P, '_valinfo', None)
    if vi is not None:
        evidence['coverage']['encoder_validation'] = dict(
            what='formula of each distinct body evaluated on concrete inputs (boundary lattice + seeded random) and compared with the natively compiled wrapper: the native result must be an outcome the formula allows',
            bodies_validated=val['bodies'], inputs_agreed=val['agreed'], inputs_outside_preconditions=val['skipped_pre'],
            inputs_inconclusive=val['inconclusive'], inputs_skipped_for_time=val['skipped_time'], needed_solver=val['solver'], mismatches=mism[:20], mismatch_count=len(mism), mismatch_kernels=dict(collections.Counter(m_['kernel'] for m_ in mism).most_common(40)),
            native_errors=valerr[:10], not_validated_signature=vi.get('unsupported_signature', 0),
            not_covered='wrappers with pointer arguments (validated through counterexample replay only), abstract / token FP modes, architectures the host cannot execute')
        evidence['coverage']['traces_validated_against_impl'] += val['agreed']
    if hasattr(P, 'evidence_extra'): P.evidence_extra(evidence, recs)
    EVD = os.environ.get('XV_EVIDENCE_DIR') or os.path.join(VERIF, 'evidence')
    os.makedirs(EVD, exist_ok=True)
    json.dump(evidence, open(os.path.join(EVD, prop + '.json'), 'w'), indent=1, default=str)
    for l in lines: print(l)
    print('%s %s: wrappers=%d bodies=%d obligations=%d discharged=%d undecided=%d unsupported=%d errors=%d violations=%d validated=%d/%d mismatches=%d solver=%.1fs wall=%.1fs' % (
        prop, tier, len(kernels), len(recs), tot['obligations'], tot['discharged'], len(undec), len(unsupported), len(errors), nviol, val['agreed'], val['bodies'], len(mism), tot['solver_s'], wall))
    if os.environ.get('XV_PROF'):
        for r in sorted(recs, key=lambda r: -r.get('wall_s', 0))[:15]:
            print('PROF %-40s wall=%.1f enc=%.1f solver=%.1f obl=%d search=%d steps=%d' % (r['kernel'], r.get('wall_s', 0), r['enc_s'], r['solver_s'], r['obligations'], r['by_search'], r['steps']))
    if errors:
        for e in errors[:5]: print('INTERNAL-ERROR %s: %s' % e, file=sys.stderr)
        return 3
    if mism:
        for m_ in mism[:10]: print('ENCODER-MISMATCH %s inputs=%s native=%s %s' % (m_['kernel'], json.dumps(m_['inputs'])[:300], str(m_['native'])[:64], m_.get('lanes') or m_.get('why')), file=sys.stderr)
        # a natively reproduced violation stands on its own; without one, a run whose model of the code is not faithful ends as an internal error
        if not nviol and not os.environ.get('XV_VALIDATE_NONFATAL'): return 3
    if covered < need:
        print('INTERNAL-ERROR coverage collapsed: %d wrappers covered < %d required' % (covered, need), file=sys.stderr)
        return 3
    return 1 if nviol else 0
