"""Translator validation (DESIGN section 3): the formula the encoder produced for a kernel body is compared with what the natively
compiled wrapper computes on concrete inputs (boundary lattice + seeded random).  For every input that satisfies the harness
preconditions the question put to the solver is "is the native result one of the outcomes the formula allows?"
(formula[inputs := concrete] AND side-facts AND result == native  satisfiable?).  With concrete inputs this is almost always closed
by the term simplifier; the solver is needed where the formula has latitude (NaN payloads, fused-or-unfused fma, UB-tagged values).
`no` is an ENCODER-MISMATCH: the model of the code (executor + intrinsic models + clang lowering) does not contain the behaviour of
the silicon, so an `unsat` obtained from it proves nothing - the run ends with the internal-error exit, never with a verdict.

This exercises every intrinsic model against the host CPU and the executor against clang's code generator on the very bodies whose
obligations are being decided.  Not covered: wrappers with pointer arguments (validated only through counterexample replay), and
architectures the host cannot execute (fma4, avx512er, avx512pf)."""
import os, re, random, subprocess, struct, hashlib, time
import concurrent.futures as cf
import z3
from . import gen
from .gen import TYPES, lanes
from .symex import F, mask

SLOT = 64
NVAL = {'quick': 6, 'thorough': 24}

DRIVER_HEAD = r'''
#include <cstdio>
#include <cstring>
#include <csignal>
#include <csetjmp>
#include <vector>
template <class T> static T rd(const unsigned char* p){ T t; std::memcpy(&t, p, sizeof(T)); return t; }
static sigjmp_buf jb;
static void on_trap(int){ siglongjmp(jb, 1); }
struct Ent { void (*fn)(const unsigned char*, unsigned char*); unsigned nargs; unsigned rsize; };
'''
DRIVER_MAIN = r'''
int main(int argc, char** argv){
  signal(SIGFPE, on_trap); signal(SIGSEGV, on_trap); signal(SIGILL, on_trap); signal(SIGBUS, on_trap);
  FILE* f = std::fopen(argv[1], "rb"); if (!f) return 2;
  unsigned hdr[2];
  std::vector<unsigned char> in;
  alignas(64) unsigned char out[256];
  while (std::fread(hdr, sizeof(unsigned), 2, f) == 2) {
    unsigned idx = hdr[0], rec = hdr[1];
    const Ent& e = table[idx];
    in.resize(e.nargs * 64 + 64);
    if (e.nargs && std::fread(in.data(), 64, e.nargs, f) != e.nargs) return 3;
    std::memset(out, 0, sizeof(out));
    if (sigsetjmp(jb, 1) == 0) {
      e.fn(in.data(), out);
      std::printf("%u %u ", idx, rec);
      for (unsigned i = 0; i < e.rsize; ++i) std::printf("%02x", out[i]);
      std::printf("\n");
    } else {
      std::printf("%u %u TRAP\n", idx, rec);
    }
  }
  return 0;
}
'''


def supported(k):
    if k.arch != 'scalar' and not k.arch.startswith('emu') and not gen.ARCH[k.arch][3]: return False
    if any(kind not in ('v', 'm', 's', 'z', 'T', 'b') for kind, _ in k.args): return False
    if k.ret[0] not in ('v', 'm', 'T', 'bool', 'u64'): return False
    if k.meta.get('replay_extra'): return False      # calls an external (uninterpreted) function: nothing to compare
    return True


def ctype_of(k, kind, ty):
    if kind == 'v': return '%s::register_type' % gen.B(ty, k.arch)
    if kind == 'm': return '%s::register_type' % gen.BB(ty, k.arch)
    if kind == 's': return 'int'
    if kind == 'z': return 'uint64_t'
    if kind == 'b': return 'bool'
    if kind == 'T': return TYPES[ty][0]
    raise KeyError(kind)


def adapter(k, i):
    args = ', '.join('rd<%s>(in + %d)' % (ctype_of(k, kind, ty), j * SLOT) for j, (kind, ty) in enumerate(k.args))
    return ('static void ad_%d(const unsigned char* in, unsigned char* out){ auto r = %s(%s); static_assert(sizeof(r) <= 256, ""); std::memcpy(out, &r, sizeof(r)); }'
            % (i, k.fname, args)), 'sizeof(decltype(%s(%s)))' % (k.fname, ', '.join('rd<%s>(nullptr)' % ctype_of(k, kind, ty) for kind, ty in k.args))


FP_LATTICE = {
    32: [0x00000000, 0x80000000, 0x3f800000, 0xbf800000, 0x7f800000, 0xff800000, 0x7fc00000, 0xffc00001, 0x7fa00000, 0x00000001, 0x80000001,
         0x007fffff, 0x00800000, 0x7f7fffff, 0xff7fffff, 0x3f000000, 0x3fc00000, 0x40200000, 0xc0200000, 0x4b000000, 0x4b000001, 0xcb000000,
         0x4b800000, 0x4f000000, 0xcf000000, 0x4f800000, 0x5f000000, 0x3effffff, 0x3f000001, 0x40490fdb, 0x42f00000, 0xc2f00000],
    64: [0x0000000000000000, 0x8000000000000000, 0x3ff0000000000000, 0xbff0000000000000, 0x7ff0000000000000, 0xfff0000000000000,
         0x7ff8000000000000, 0xfff8000000000001, 0x7ff4000000000000, 0x0000000000000001, 0x8000000000000001, 0x000fffffffffffff,
         0x0010000000000000, 0x7fefffffffffffff, 0xffefffffffffffff, 0x3fe0000000000000, 0x3ff8000000000000, 0x4004000000000000,
         0xc004000000000000, 0x4330000000000000, 0x4330000000000001, 0xc330000000000000, 0x41e0000000000000, 0xc1e0000000000000,
         0x41f0000000000000, 0x43e0000000000000, 0xc3e0000000000000, 0x43f0000000000000, 0x3fdfffffffffffff, 0x3fe0000000000001,
         0x400921fb54442d18, 0x405e000000000000],
}


def lane_value(rng, ty):
    w = TYPES[ty][1]
    r = rng.random()
    if TYPES[ty][3] == 'fp':
        if r < 0.45: return rng.choice(FP_LATTICE[w])
        if r < 0.75:
            # moderate magnitudes: exponent near the bias
            import struct as st
            v = rng.uniform(-300.0, 300.0) * (1 if rng.random() < 0.8 else 1e-3)
            return int.from_bytes(st.pack('<f' if w == 32 else '<d', v), 'little')
        return rng.getrandbits(w)
    lat = [0, 1, 2, 3, mask(w), mask(w) - 1, 1 << (w - 1), (1 << (w - 1)) - 1, (1 << (w - 1)) + 1, 0x5555555555555555 & mask(w), 0xAAAAAAAAAAAAAAAA & mask(w), w - 1, w, 7, 0x80, 0xff, 0x100]
    if r < 0.4: return rng.choice(lat) & mask(w)
    if r < 0.6: return rng.getrandbits(min(w, 5))
    return rng.getrandbits(w)


def make_inputs(k, n_inputs, seed):
    """deterministic candidate inputs for one kernel: list of {argname: [lane ints] | [bools] | int | bool}"""
    rng = random.Random('%s|%d' % (k.name, seed))
    out = []
    for it in range(n_inputs):
        rec = {}
        for (kind, ty), nm in zip(k.args, 'abcdefgh'):
            if kind == 'v':
                n = lanes(ty, k.arch)
                conc = k.meta.get('concrete', {}).get(nm)
                if conc is not None:
                    rec[nm] = [int(x) for x in conc]; continue
                vals = [lane_value(rng, ty) for _ in range(n)]
                if it == 0 and TYPES[ty][3] != 'fp' and nm != 'a':
                    vals = [v if v else 1 for v in vals]
                lm = k.meta.get('lanemap')
                if lm is not None: vals = [vals[j] for j in lm]
                rec[nm] = vals
            elif kind == 'm':
                n = lanes(ty, k.arch)
                rec[nm] = [rng.random() < 0.5 for _ in range(n)]
            elif kind == 's':
                rec[nm] = rng.choice([0, 1, 1, 2, 3, 5, 7]) if rng.random() < 0.8 else rng.randrange(0, 64)
            elif kind == 'z':
                n = lanes(k.ty, k.arch) if k.ty in TYPES else 4
                rec[nm] = rng.getrandbits(min(n, 63)) if k.op == 'from_mask' else rng.randrange(0, n)      # indices stay in range: an out-of-range index corrupts the native driver's stack
            elif kind == 'b': rec[nm] = rng.random() < 0.5
            elif kind == 'T': rec[nm] = lane_value(rng, ty)
        out.append(rec)
    return out


def pack_inputs(k, rec):
    bs = b''
    for (kind, ty), nm in zip(k.args, 'abcdefgh'):
        v = rec[nm]
        if kind == 'v':
            w = TYPES[ty][1]; b = b''.join(int(x).to_bytes(w // 8, 'little') for x in v)
        elif kind == 'm':
            w = TYPES[ty][1]
            if gen.is_avx512(k.arch): b = sum((1 << i) for i, t in enumerate(v) if t).to_bytes(8, 'little')
            else: b = b''.join((mask(w) if t else 0).to_bytes(w // 8, 'little') for t in v)
        elif kind == 's': b = (v & 0xffffffff).to_bytes(4, 'little')
        elif kind == 'z': b = v.to_bytes(8, 'little')
        elif kind == 'b': b = bytes([1 if v else 0])
        elif kind == 'T': b = int(v).to_bytes(TYPES[ty][1] // 8, 'little')
        bs += b + b'\0' * (SLOT - len(b))
    return bs


def _prepare(job):
    """write driver source, packed inputs and the meta pickle of one native TU (no subprocess here)"""
    import pickle
    path, ks, inputs, flags = job
    src = [gen.PRELUDE, DRIVER_HEAD]
    seen = set()
    for k in ks:
        if k.fname in seen: continue
        seen.add(k.fname); src.append(k.cpp())
        if k.meta.get('replay_extra'): src.append(k.meta['replay_extra'])
    tab = []
    for i, k in enumerate(ks):
        a, rs = adapter(k, i)
        src.append(a); tab.append('{ad_%d, %d, (unsigned)%s}' % (i, len(k.args), rs))
    src.append('static const Ent table[] = {%s};' % ',\n'.join(tab))
    src.append(DRIVER_MAIN)
    open(path + '.cpp', 'w').write('\n'.join(src))
    with open(path + '.in', 'wb') as fh:
        for i, k in enumerate(ks):
            for j, rec in enumerate(inputs[k.name]):
                fh.write(struct.pack('<II', i, j)); fh.write(pack_inputs(k, rec))
    with open(path + '.meta', 'wb') as fh:
        pickle.dump({k.name: (i, inputs[k.name]) for i, k in enumerate(ks)}, fh)


def native_batch(reps, workdir, tier, seed, jobs=8, extra_flags=(), fexc=False):
    """reps: representative kernels (one per distinct body).  Writes the native driver TUs and starts a helper *process*
    (python -m xv.validate <joblist.json>: plain compile + run, no fork of this process's state, no pipes) that builds and runs them
    in the background; returns ({kernel name: TU path}, number of unsupported signatures).  A TU is finished when <path>.done exists."""
    import json, sys
    n = int(os.environ.get('XV_NVAL') or NVAL.get(tier, 6))
    todo = [k for k in reps if supported(k)]
    inputs = {k.name: make_inputs(k, n, seed) for k in todo}
    groups = {}
    for k in todo: groups.setdefault(k.arch, []).append(k)
    jobl = []
    for g, ks in groups.items():
        for ci in range(0, len(ks), 120):
            sub = ks[ci:ci + 120]
            extra = list(extra_flags) + ([] if fexc else ['-fno-exceptions'])
            if g.startswith('emu'): extra.append('-DXSIMD_WITH_EMULATED=1')
            flags = gen.native_flags(g) + extra
            jobl.append((os.path.join(workdir, 'nat_%s_%d' % (re.sub(r'\W', '_', g), ci // 120)), sub, inputs, flags))
    where = {}
    for job in jobl:
        _prepare(job)
        for k in job[1]: where[k.name] = job[0]
    jl = os.path.join(workdir, 'nat_jobs.json')
    json.dump(dict(jobs=jobs, tus=[(j[0], j[3]) for j in jobl]), open(jl, 'w'))
    if jobl:
        subprocess.Popen([sys.executable, '-m', 'xv.validate', jl], cwd=os.path.dirname(os.path.dirname(os.path.abspath(__file__))),
                         stdin=subprocess.DEVNULL, stdout=subprocess.DEVNULL, stderr=subprocess.DEVNULL)
    return where, len(reps) - len(todo)


def _helper_one(tu):
    path, flags = tu
    try:
        with open(path + '.err', 'w') as ferr:
            rc = subprocess.call([gen.CLANG] + flags + [path + '.cpp', '-o', path + '.bin'], stdout=ferr, stderr=ferr, stdin=subprocess.DEVNULL)
        if rc != 0:
            open(path + '.fail', 'w').write('compile failed: ' + open(path + '.err').read()[:300])
        else:
            with open(path + '.out', 'w') as fout:
                rc = subprocess.call([path + '.bin', path + '.in'], stdout=fout, stderr=subprocess.DEVNULL, stdin=subprocess.DEVNULL, timeout=300)
            if rc != 0: open(path + '.fail', 'w').write('native driver exit %d' % rc)
    except Exception as e:
        open(path + '.fail', 'w').write('native driver failed: %s' % e)
    open(path + '.done', 'w').write('1')


def helper_main(jl):
    import json
    d = json.load(open(jl))
    with cf.ThreadPoolExecutor(d['jobs']) as tp:
        list(tp.map(_helper_one, d['tus']))


def wait_result(path, name, max_wait=20):
    """-> (inputs, [raw bytes | 'TRAP' | None]) | error string"""
    import pickle
    t_end = time.time() + max_wait
    while not os.path.exists(path + '.done'):
        if time.time() > t_end: return 'native driver result not yet available after %d s (body not validated; workers are not held up for the native build)' % max_wait
        time.sleep(0.5)
    idx, inputs = pickle.load(open(path + '.meta', 'rb'))[name]
    res = [None] * len(inputs)
    if os.path.exists(path + '.out'):
        pre = '%d ' % idx
        for l in open(path + '.out'):
            if not l.startswith(pre): continue
            ps = l.split(' ')
            if len(ps) != 3: continue
            hx = ps[2].strip()
            try:
                # an input outside the preconditions (e.g. an out-of-range index) may have scribbled over the driver's stack: ignore malformed lines
                res[int(ps[1])] = 'TRAP' if hx == 'TRAP' else bytes.fromhex(hx)
            except (ValueError, IndexError):
                continue
    if os.path.exists(path + '.fail') and any(r is None for r in res):
        return open(path + '.fail').read()
    return inputs, res


# ------------------------------------------------------------------------------------------------ worker side
def flat_terms(res, k):
    """symbolic result -> list of (label, term) with bit-vector / Bool terms"""
    rk, rty = k.ret
    out = []
    if rk in ('v',):
        for i, x in enumerate(res): out.append(('lane%d' % i, x.bits() if isinstance(x, F) else x))
    elif rk == 'm':
        for i, (kind, x) in enumerate(res): out.append(('mask%d' % i, x))
    elif rk == 'bool': out.append(('ret', res))
    elif rk in ('u64', 'T'): out.append(('ret', res.bits() if isinstance(res, F) else res))
    return out


def flat_native(k, raw):
    rk, rty = k.ret
    if rk == 'v':
        w = TYPES[rty][1]; n = lanes(rty, k.arch)
        return [(int.from_bytes(raw[i * w // 8:(i + 1) * w // 8], 'little'), w) for i in range(n)]
    if rk == 'm':
        w = TYPES[rty][1]; n = lanes(rty, k.arch)
        if gen.is_avx512(k.arch):
            v = int.from_bytes(raw, 'little'); return [((v >> i) & 1, 1) for i in range(n)]
        return [(int.from_bytes(raw[i * w // 8:(i + 1) * w // 8], 'little'), w) for i in range(n)]
    if rk == 'bool': return [(bool(raw[0] & 1), 0)]
    if rk == 'u64': return [(int.from_bytes(raw[:8], 'little'), 64)]
    if rk == 'T':
        w = TYPES[rty][1]; return [(int.from_bytes(raw[:w // 8], 'little'), w)]
    return []


def subst_pairs(run, rec):
    ps = []
    for d in run.desc:
        nm = d['name']
        if d['kind'] == 'v':
            if d.get('concrete'): continue
            w = TYPES[d['ty']][1]
            seen = set()
            for sym, v in zip(d['lanes'], rec[nm]):
                if sym.get_id() in seen: continue
                seen.add(sym.get_id()); ps.append((sym, z3.BitVecVal(v, w)))
        elif d['kind'] == 'm':
            for b, v in zip(d['bools'], rec[nm]): ps.append((b, z3.BoolVal(bool(v))))
        elif d['kind'] == 'b': ps.append((d['sym'], z3.BoolVal(bool(rec[nm]))))
        elif d['kind'] in ('s', 'z'): ps.append((d['sym'], z3.BitVecVal(rec[nm], d['width'])))
        elif d['kind'] == 'T': ps.append((d['sym'], z3.BitVecVal(rec[nm], TYPES[d['ty']][1])))
        else: return None
    return ps


def _isnan_bits(v, w):
    e, m = (0x7f800000, 0x007fffff) if w == 32 else (0x7ff0000000000000, 0x000fffffffffffff)
    return (v & e) == e and (v & m) != 0


def _eq_fp(term, val, w):
    """FP result lane: a native NaN matches any NaN of the formula (sign / payload of a NaN are not part of any claim; the concrete-NaN
    mode of the point evaluations fixes one pattern arbitrarily)"""
    if _isnan_bits(val, w):
        if isinstance(term, int): return z3.BoolVal(_isnan_bits(term, w))
        return z3.fpIsNaN(z3.fpBVToFP(term, z3.Float32() if w == 32 else z3.Float64()))
    return _eq(term, val, w)


def _eq(term, val, w):
    if isinstance(term, bool): return z3.BoolVal(term == bool(val))
    if isinstance(term, int): return z3.BoolVal((term & mask(max(w, 1))) == val) if w else z3.BoolVal(bool(term) == bool(val))
    if z3.is_bool(term): return term == z3.BoolVal(bool(val))
    return term == z3.BitVecVal(val, term.size())


def check_body(run, k, obs, goals, native, timeout_ms=10000, budget_s=30):
    """-> dict(agreed, skipped_pre, trapped, inconclusive, mismatches=[...])"""
    out = dict(agreed=0, skipped_pre=0, trapped=0, inconclusive=0, solver=0, mismatches=[])
    if native is None: return out
    if isinstance(native, str):
        out['error'] = native; return out
    inputs, raws = native
    ex = run.ex
    terms = flat_terms(run.res, k)
    pres = [p for p in ([ob.pre for ob in obs if ob.pre is not True and ob.kind == 'spec'] + list(ex.assume))]
    # internal in-bounds / alignment / unwinding obligations are preconditions of a meaningful native run as well
    for ob, g in zip(obs, goals):
        if ob.kind in ('spec', 'mem') or isinstance(g, bool): continue
        pres.append(z3.Implies(ob.pre, g) if ob.pre is not True else g)
    side = list(ex.side)
    t_end = time.time() + budget_s
    for rec, raw in zip(inputs, raws):
        if time.time() > t_end:
            # instantiating a large formula (64-lane compress / symbolic-index chains) can take seconds per input: wall-clock budget per body
            out['skipped_time'] = out.get('skipped_time', 0) + 1; continue
        if raw is None: out['inconclusive'] += 1; continue
        ps = subst_pairs(run, rec)
        if ps is None: return out
        ok_pre = True
        for p in pres:
            v = z3.simplify(z3.substitute(p, *ps)) if ps else z3.simplify(p)
            if not z3.is_true(v): ok_pre = False; break
        if not ok_pre: out['skipped_pre'] += 1; continue
        if isinstance(raw, str):
            # a trap on an input that satisfies every precondition: the formula knows no traps
            out['trapped'] += 1
            out['mismatches'].append(dict(inputs=_show(rec), native='TRAP', why='native wrapper trapped on an input satisfying the preconditions'))
            continue
        nat = flat_native(k, raw)
        if len(nat) != len(terms): out['inconclusive'] += 1; continue
        fpres = k.ret[0] in ('v', 'T') and k.ret[1] in TYPES and TYPES[k.ret[1]][3] == 'fp'
        eqs = [(_eq_fp if fpres and w in (32, 64) else _eq)(t, v, w) for (lbl, t), (v, w) in zip(terms, nat)]
        conj = z3.And(*eqs) if len(eqs) > 1 else eqs[0]
        g = z3.simplify(z3.substitute(conj, *ps)) if ps else z3.simplify(conj)
        if z3.is_true(g): out['agreed'] += 1; continue
        bad = None
        if not z3.is_false(g):
            sol = z3.Solver(); sol.set('timeout', timeout_ms)
            sol.add(g)
            for sd in side: sol.add(z3.substitute(sd, *ps) if ps else sd)
            out['solver'] += 1
            r = sol.check()
            if r == z3.sat: out['agreed'] += 1; continue
            if r == z3.unknown: out['inconclusive'] += 1; continue
        # which lanes disagree
        lanes_bad = []
        for (lbl, t), (v, w), e in zip(terms, nat, eqs):
            ev = z3.simplify(z3.substitute(e, *ps)) if ps else z3.simplify(e)
            if not z3.is_true(ev):
                tv = z3.simplify(z3.substitute(t, *ps)) if (ps and not isinstance(t, (bool, int))) else t
                lanes_bad.append('%s: formula=%s native=%s' % (lbl, str(tv)[:80], hex(v) if not isinstance(v, bool) else v))
        out['mismatches'].append(dict(inputs=_show(rec), native=raw.hex(), lanes=lanes_bad[:6]))
    return out


def _show(rec):
    return {a: ([hex(x) if not isinstance(x, bool) else x for x in v] if isinstance(v, list) else v) for a, v in rec.items()}


if __name__ == '__main__':
    import sys
    helper_main(sys.argv[1])
