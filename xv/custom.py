"""Support for properties whose harness is not an (op x type x arch) kernel table: compile a generated TU, run named wrappers through
the executor with custom stubs, decide a list of named obligations, replay, write evidence."""
import os, sys, re, json, time, tempfile, shutil, subprocess, hashlib
import z3
from . import llir, gen, symex, harness, engine

VERIF = engine.VERIF


class Session:
    def __init__(s, prop, tier, seed, bounds='', assumptions=(), level='model_checking'):
        s.prop = prop; s.tier = tier; s.seed = seed; s.t0 = time.time()
        s.work = tempfile.mkdtemp(prefix='xv_%s_' % prop)
        s.replay_root = os.path.join(os.environ.get('XV_REPLAY_ROOT') or os.path.join(VERIF, 'replays'), prop)
        shutil.rmtree(s.replay_root, ignore_errors=True)
        s.dec = harness.Decider(timeout_s=20 if tier == 'quick' else 300)
        s.obl = 0; s.dis = 0; s.undecided = []; s.violations = []; s.unconfirmed = []; s.known_seen = {}
        s.functions = []; s.samples = []; s.notes = []; s.internal = []
        s.bounds = bounds; s.assumptions = list(assumptions); s.level = level
        s.known = [e for e in engine.load_known() if e.get('status') == 'known' and e['property'] == prop]
        s.extra = {}
        s.vacuity = 0

    # ---- build
    def compile(s, name, source, flags=None, fexc=False):
        """-> parsed module (IR regenerated from /repo's current headers)"""
        cpp = os.path.join(s.work, name + '.cpp'); ll = os.path.join(s.work, name + '.ll')
        open(cpp, 'w').write(source)
        fl = list(flags or (gen.BASEFLAGS + gen.M512)) + ([] if fexc else ['-fno-exceptions'])
        p = subprocess.run([gen.CLANG] + fl + ['-S', '-emit-llvm', cpp, '-o', ll], capture_output=True, text=True)
        if p.returncode != 0:
            raise RuntimeError('compile failed: ' + p.stderr[:3000])
        s.sources = getattr(s, 'sources', {}); s.sources[name] = (cpp, fl)
        return llir.parse_module(open(ll).read())

    def native(s, name, main_src, rdir, flags=None, fexc=False, timeout=20, extra_src=''):
        """compile wrappers + a driver natively and run it -> (stdout | None, why)"""
        os.makedirs(rdir, exist_ok=True)
        cpp, fl = s.sources[name]
        fl = [f for f in fl if f not in ('-fno-exceptions',)] if fexc else fl
        src = open(cpp).read() + '\n' + extra_src + '\n' + main_src
        rc = os.path.join(rdir, 'replay.cpp'); exe = os.path.join(rdir, 'replay.bin')
        open(rc, 'w').write(src)
        cmd = [gen.CLANG] + [f for f in fl if f != '-ferror-limit=0'] + [rc, '-o', exe]
        open(os.path.join(rdir, 'run.sh'), 'w').write('#!/bin/sh\ncd "$(dirname "$0")" && %s && ./replay.bin\n' % ' '.join(cmd).replace(rc, 'replay.cpp').replace(exe, 'replay.bin'))
        os.chmod(os.path.join(rdir, 'run.sh'), 0o755)
        p = subprocess.run(cmd, capture_output=True, text=True)
        if p.returncode != 0: return None, 'compile failed: ' + p.stderr[:400]
        try:
            q = subprocess.run([exe], capture_output=True, text=True, timeout=timeout)
        except subprocess.TimeoutExpired:
            return None, 'timeout'
        if q.returncode < 0: return None, 'signal %d' % -q.returncode
        return q.stdout, 'ok'

    # ---- decide
    def prove(s, name, assumptions, goal, replay=None, region=None, witness=True):
        """obligation: assumptions => goal.  replay(model, rdir) -> (True violated | False spurious | None unconfirmed, info)"""
        s.obl += 1
        assumptions = [a for a in assumptions if not (a is True)]
        if witness and assumptions:
            # vacuity guard: the assumptions must be satisfiable
            w = z3.Solver(); w.set('timeout', 20000); w.add(*assumptions)
            if w.check() == z3.unsat:
                s.internal.append('vacuous obligation (unsatisfiable assumptions): ' + name); return 'vacuous'
            s.vacuity += 1
        excl = []
        for e in s.known:
            if e.get('oblig') and re.search(e['oblig'], name) and region is not None and e['region'] in region:
                reg = region[e['region']]
                r, m = s.dec.check(assumptions + [reg], goal, None, name + ' (known region)')
                if r == 'sat': s.known_seen[e['id']] = e['what']
                excl.append(z3.Not(reg))
        t0 = time.time()
        r, m = s.dec.check(assumptions + excl, goal, None, name)
        if len(s.samples) < 8:
            s.samples.append({'obligation': name, 'result': r, 'seconds': round(time.time() - t0, 3)})
        if r == 'unsat':
            s.dis += 1; return 'discharged'
        if r != 'sat':
            s.undecided.append(name); return 'undecided'
        rdir = os.path.join(s.replay_root, re.sub(r'\W+', '_', name)[:100])
        if replay is None and getattr(s, 'ground_tables', False):
            replay = s.ground_replay(goal)
        if replay is None:
            s.unconfirmed.append('%s (no native replay for this obligation)' % name); return 'unconfirmed'
        verdict, info = replay(m, rdir)
        os.makedirs(rdir, exist_ok=True)
        json.dump(dict(property=s.prop, obligation=name, **info), open(os.path.join(rdir, 'counterexample.json'), 'w'), indent=1, default=str)
        if verdict is True:
            s.violations.append((name, rdir, info)); return 'violated'
        if verdict is False:
            s.undecided.append(name + ' (model does not reproduce natively)'); return 'undecided'
        s.unconfirmed.append('%s (%s)' % (name, info.get('why'))); return 'unconfirmed'

    def ground_replay(s, goal):
        """confirmation of a counterexample of an obligation over constant tables (folded by clang from the real headers): the goal is
        evaluated under the model's index assignment - exact, no abstraction is involved"""
        def fn(m, rdir):
            v = z3.simplify(m.eval(goal, model_completion=True))
            info = dict(inputs={str(d): str(m[d]) for d in m.decls()}, why='goal evaluates to %s on the constant tables folded from the real headers' % v)
            s._ground_dir(rdir)
            return (True if z3.is_false(v) else None), info
        return fn

    def _ground_dir(s, rdir):
        os.makedirs(rdir, exist_ok=True)
        open(os.path.join(rdir, 'run.sh'), 'w').write('#!/bin/sh\n# ground fact read from the compiled constant tables: shows the failing entry; re-run ./check %s to re-derive it from /repo\ncat "$(dirname "$0")/counterexample.json"\nexit 1\n' % s.prop)
        os.chmod(os.path.join(rdir, 'run.sh'), 0o755)

    def fact(s, name, ok, detail=''):
        """a ground (solver-free) obligation"""
        s.obl += 1
        if ok: s.dis += 1
        else:
            rdir = os.path.join(s.replay_root, re.sub(r'\W+', '_', name)[:100])
            s._ground_dir(rdir)
            json.dump(dict(property=s.prop, obligation=name, detail=detail), open(os.path.join(rdir, 'counterexample.json'), 'w'), indent=1)
            s.violations.append((name, rdir, {'detail': detail}))

    # ---- finish
    def finish(s, rule, min_obligations=1):
        lines = []
        for name, rdir, info in s.violations:
            lines.append('VIOLATION property=%s replay=%s  # %s %s' % (s.prop, rdir, name, json.dumps(info, default=str)[:300]))
        for kid, what in s.known_seen.items():
            lines.append('KNOWN-FINDING: property=%s %s [%s]' % (s.prop, what, kid))
        for u in s.unconfirmed[:20]: lines.append('UNCONFIRMED %s' % u)
        ev = {'property_id': s.prop, 'tier': s.tier, 'seed': s.seed, 'level': s.level,
              'coverage': {'obligations': s.obl, 'discharged': s.dis, 'evaluations': s.dec.queries, 'distinct_nontrivial': s.dec.by_search,
                           'rule': rule, 'samples': s.samples + s.dec.samples[:3] or [{'note': 'none'}],
                           'closed_by_simplifier': s.dec.by_simplifier, 'needed_search': s.dec.by_search, 'undecided': s.undecided[:100], 'undecided_count': len(s.undecided),
                           'unconfirmed': s.unconfirmed[:50], 'known_findings_seen': sorted(s.known_seen), 'functions_encoded': s.functions,
                           'vacuity_witnesses_sat': s.vacuity, 'solver_seconds': round(s.dec.solver_s, 2), 'bounds': s.bounds, 'notes': s.notes,
                           'internal_errors': s.internal, **s.extra},
              'assumptions': s.assumptions, 'wall_s': round(time.time() - s.t0, 2), 'violations': len(s.violations)}
        if s.level == 'other': ev['coverage']['explanation'] = rule
        EVD = os.environ.get('XV_EVIDENCE_DIR') or os.path.join(VERIF, 'evidence')
        os.makedirs(EVD, exist_ok=True)
        json.dump(ev, open(os.path.join(EVD, s.prop + '.json'), 'w'), indent=1, default=str)
        for l in lines: print(l)
        print('%s %s: obligations=%d discharged=%d undecided=%d unconfirmed=%d violations=%d solver=%.1fs wall=%.1fs' % (
            s.prop, s.tier, s.obl, s.dis, len(s.undecided), len(s.unconfirmed), len(s.violations), s.dec.solver_s, time.time() - s.t0))
        shutil.rmtree(s.work, ignore_errors=True)
        if s.internal:
            for e in s.internal[:5]: print('INTERNAL-ERROR ' + e, file=sys.stderr)
            return 3
        if s.obl < min_obligations:
            print('INTERNAL-ERROR coverage collapsed: %d obligations < %d' % (s.obl, min_obligations), file=sys.stderr); return 3
        return 1 if s.violations else 0
