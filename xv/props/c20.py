"""C20 architecture descriptions and batch geometry.

A generated translation unit defines constant tables (batch sizes, register sizes, alignments, list positions, is_base_of matrix,
make_sized_batch results, trait widths) whose initialisers clang folds *from the real headers*; the tables are read back from the LLVM
IR.  The property's relations are then checked as formulas with a *symbolic architecture index and type index* over those tables, so
the quantifier over the configuration space is the solver's.  Honest note (DESIGN section 5 C20): apart from the alignment-attribute item
this is evaluation of ground facts by a solver - cheap, exact and regenerated from source on every run; level claimed: other.

Non-degenerate item: every load_aligned / store_aligned kernel body is executed symbolically and the `align N` attribute of every memory
access it performs on the caller's pointer must divide A::alignment() (otherwise the documented contract `pointer % A::alignment() == 0`
would not license the instruction that was emitted)."""
import re, os, itertools
import z3
from .. import gen, custom, kernels as K, llir, harness
from ..gen import TYPES, ATYPES, ALL_ARCHS

BOUNDS = ('all 23 x86 architectures of all_x86_architectures + emulated<128>, emulated<256>; 10 element types (+ complex<float>, complex<double>, bool traits); '
          'make_sized_batch<T,N> for N in {1,2,3,4,8,16,32,64,128}; arch_list::alignment() for the full list and every ordered sub-list (all permutations) of length <= 3 of a 6-element sample; simd_return_type for every (From, To) pair of the 10 element types and the 4 complex precision pairs. '
          'Outside: NEON/SVE/RVV/WASM register tables (no cross headers in this image).')
ASSUMPTIONS = ['clang-14 constant-folds the table initialisers faithfully (they are integral constant expressions of the real headers)',
               'the expected register width per architecture (128 for SSE*/FMA3<sse4_2>/FMA4, 256 for AVX*/FMA3<avx*>/AVXVNNI, 512 for AVX512*) is taken from the ISA, not from xsimd']

NS = [1, 2, 3, 4, 8, 16, 32, 64, 128]
SAMPLE = ['sse2', 'sse4_2', 'avx', 'avx2', 'avx512f', 'avx512bw']


def cpp_arch(a): return gen.cpp_arch(a)


def source(archs):
    A = [cpp_arch(a) for a in archs]
    T = [TYPES[t][0] for t in ATYPES]
    L = []
    L.append('#include <xsimd/xsimd.hpp>\n#include <complex>\n#include <type_traits>\n#include <cstdint>\nusing namespace xsimd;')
    L.append('''template <class A, class L> struct pos_in;
template <class A> struct pos_in<A, arch_list<>> { static constexpr uint64_t value = 1000; };
template <class A, class... As> struct pos_in<A, arch_list<A, As...>> { static constexpr uint64_t value = 0; };
template <class A, class B, class... As> struct pos_in<A, arch_list<B, As...>> { static constexpr uint64_t value = 1 + pos_in<A, arch_list<As...>>::value; };
template <class L> struct len_of;
template <class... As> struct len_of<arch_list<As...>> { static constexpr uint64_t value = sizeof...(As); };
template <class B> struct size_or0 { static constexpr uint64_t value = B::size; static constexpr uint64_t bytes = sizeof(typename B::register_type); };
template <> struct size_or0<void> { static constexpr uint64_t value = 0; static constexpr uint64_t bytes = 0; };
template <class T> struct fl_of { using type = void; };
#define U(...) (uint64_t(__VA_ARGS__) + 1)
#define TBL extern "C" const uint64_t''')
    def tbl2(name, fn):
        rows = ['  ' + ', '.join('U(%s)' % fn(a, t) for t in T) for a in A]
        L.append('TBL %s[] = {\n%s\n};' % (name, ',\n'.join(rows)))
    tbl2('T_size', lambda a, t: 'batch<%s, %s>::size' % (t, a))
    tbl2('T_bsize', lambda a, t: 'batch_bool<%s, %s>::size' % (t, a))
    tbl2('T_regbytes', lambda a, t: 'sizeof(typename batch<%s, %s>::register_type)' % (t, a))
    tbl2('T_batchbytes', lambda a, t: 'sizeof(batch<%s, %s>)' % (t, a))
    tbl2('T_hasreg', lambda a, t: 'has_simd_register<%s, %s>::value' % (t, a))
    tbl2('T_masktype', lambda a, t: 'std::is_same<mask_type_t<batch<%s, %s>>, batch_bool<%s, %s>>::value' % (t, a, t, a))
    tbl2('T_scalartype', lambda a, t: '(std::is_same<scalar_type_t<batch<%s, %s>>, %s>::value && std::is_same<typename batch<%s, %s>::value_type, %s>::value)' % (t, a, t, t, a, t))
    tbl2('T_isbatch', lambda a, t: '(is_batch<batch<%s, %s>>::value && !is_batch<%s>::value && is_batch_bool<batch_bool<%s, %s>>::value && !is_batch_bool<batch<%s, %s>>::value)' % (t, a, t, t, a, t, a))
    tbl2('T_retsame', lambda a, t: 'std::is_same<simd_return_type<%s, %s, %s>, batch<%s, %s>>::value' % (t, t, a, t, a))
    tbl2('T_boolret', lambda a, t: 'std::is_same<simd_return_type<bool, %s, %s>, batch_bool<%s, %s>>::value' % (t, a, t, a))
    # simd_return_type<From, To, A> names the batch of the destination type for every (From, To) pair, real and complex, same or different precision
    L.append('TBL T_retmix[] = {\n%s\n};' % ',\n'.join('  ' + ', '.join('U((std::is_same<simd_return_type<%s, %s, %s>, batch<%s, %s>>::value))' % (t1, t2, a, t2, a) for t1 in T for t2 in T) for a in A))
    CP = ['float', 'double']
    L.append('TBL T_cretmix[] = {\n%s\n};' % ',\n'.join('  ' + ', '.join('U((std::is_same<simd_return_type<std::complex<%s>, std::complex<%s>, %s>, batch<std::complex<%s>, %s>>::value && std::is_same<simd_return_type<std::complex<%s>, %s, %s>, batch<std::complex<%s>, %s>>::value))' % (c1, c2, a, c2, a, c1, c2, a, c2, a) for c1 in CP for c2 in CP) for a in A))
    tbl2('T_archtype', lambda a, t: 'std::is_same<typename batch<%s, %s>::arch_type, %s>::value' % (t, a, a))
    L.append('TBL T_csize[] = {\n%s\n};' % ',\n'.join('  U((batch<std::complex<float>, %s>::size)), U((batch<std::complex<double>, %s>::size))' % (a, a) for a in A))
    L.append('TBL T_cret[] = {\n%s\n};' % ',\n'.join('  U((std::is_same<simd_return_type<std::complex<float>, std::complex<float>, %s>, batch<std::complex<float>, %s>>::value)), U((std::is_same<simd_return_type<std::complex<double>, std::complex<double>, %s>, batch<std::complex<double>, %s>>::value))' % (a, a, a, a) for a in A))
    L.append('TBL T_align[] = { %s };' % ', '.join('U(%s::alignment())' % a for a in A))
    L.append('TBL T_reqalign[] = { %s };' % ', '.join('U(%s::requires_alignment())' % a for a in A))
    L.append('TBL T_supported[] = { %s };' % ', '.join('U(%s::supported())' % a for a in A))
    L.append('TBL T_pos_all[] = { %s };' % ', '.join('U((pos_in<%s, all_x86_architectures>::value))' % a for a in A))
    L.append('TBL T_pos_sup[] = { %s };' % ', '.join('U((pos_in<%s, supported_architectures>::value))' % a for a in A))
    L.append('TBL T_contains[] = { %s };' % ', '.join('U((supported_architectures::contains<%s>()))' % a for a in A))
    L.append('TBL T_len[] = { U(len_of<all_x86_architectures>::value), U(len_of<supported_architectures>::value), U((pos_in<best_arch, supported_architectures>::value)), U((pos_in<default_arch, supported_architectures>::value)) };')
    L.append('TBL T_base[] = {\n%s\n};' % ',\n'.join('  ' + ', '.join('U((std::is_base_of<%s, %s>::value))' % (p, a) for p in A) for a in A))
    # arch_list::alignment() on the whole list and on sub-lists of a sample
    subs = []
    S = [a for a in SAMPLE if a in archs]
    # ordered sub-lists (every order: the maximum must not depend on where it stands - seed C20-1 returned the first local peak)
    for r in (1, 2, 3):
        for c in itertools.permutations(S, r): subs.append(c)
    L.append('TBL T_listalign[] = { U(all_x86_architectures::alignment()), U(supported_architectures::alignment()), U(arch_list<>::alignment()), %s };' %
             ', '.join('U((arch_list<%s>::alignment()))' % ', '.join(cpp_arch(a) for a in c) for c in subs))
    L.append('TBL T_sized[] = {\n%s\n};' % ',\n'.join('  ' + ', '.join('U((size_or0<make_sized_batch_t<%s, %d>>::value))' % (t, n) for n in NS) for t in T))
    L.append('TBL T_sizedbytes[] = {\n%s\n};' % ',\n'.join('  ' + ', '.join('U((size_or0<make_sized_batch_t<%s, %d>>::bytes))' % (t, n) for n in NS) for t in T))
    L.append('TBL T_sizeof[] = { %s };' % ', '.join('U(sizeof(%s))' % t for t in T))
    L.append('TBL T_asint[] = { %s };' % ', '.join('U((sizeof(as_integer_t<%s>) == sizeof(%s) && std::is_integral<as_integer_t<%s>>::value && std::is_signed<as_integer_t<%s>>::value))' % (t, t, t, t) for t in T))
    L.append('TBL T_asuint[] = { %s };' % ', '.join('U((sizeof(as_unsigned_integer_t<%s>) == sizeof(%s) && std::is_unsigned<as_unsigned_integer_t<%s>>::value))' % (t, t, t) for t in T))
    T4 = [t for t in T if t in ('int32_t', 'int64_t')]
    L.append('TBL T_asfloat[] = { %s };' % ', '.join('U((sizeof(as_float_t<%s>) == sizeof(%s) && std::is_floating_point<as_float_t<%s>>::value))' % (t, t, t) for t in T4))
    return '\n'.join(L) + '\n', subs


def read_tables(ll_text):
    out = {}
    for m in re.finditer(r'@(T_\w+) = [^\n]*?constant \[(\d+) x i64\] (\[[^\n]*\]|zeroinitializer)', ll_text):
        name, n, body = m.group(1), int(m.group(2)), m.group(3)
        vals = [int(x) for x in re.findall(r'i64 (\d+)', body)]
        if len(vals) != n: raise RuntimeError('table %s: %d values, expected %d' % (name, len(vals), n))
        out[name] = [v - 1 for v in vals]
    return out


def lookup(tab, idx, w=16):
    """z3 term tab[idx] for symbolic idx (nested ite over the folded constants)"""
    r = z3.BitVecVal(0xFFFF, w)
    for j in reversed(range(len(tab))):
        r = z3.If(idx == j, z3.BitVecVal(tab[j], w), r)
    return r


def main(tier, seed):
    S = custom.Session('C20', tier, seed, bounds=BOUNDS, assumptions=ASSUMPTIONS, level='other')
    S.ground_tables = True      # counterexamples of table obligations are confirmed by evaluating the goal on the constant tables (exact)
    x86 = list(ALL_ARCHS); emu = ['emu128', 'emu256']
    archs = x86 + emu
    NA = len(archs); NX = len(x86); NT = len(ATYPES)
    src, subs = source(archs)
    fl = gen.BASEFLAGS + gen.M512 + ['-DXSIMD_WITH_EMULATED=1']
    S.compile('tables', src, flags=fl)
    ll = open(os.path.join(S.work, 'tables.ll')).read()
    Tb = read_tables(ll)
    S.functions = sorted(Tb)
    S.extra['tables_read'] = {k: len(v) for k, v in Tb.items()}
    W = 16
    a = z3.BitVec('arch', W); t = z3.BitVec('type', W); p = z3.BitVec('parent', W); n = z3.BitVec('nidx', W)
    inA = z3.ULT(a, NA); inX = z3.ULT(a, NX); inT = z3.ULT(t, NT); inP = z3.ULT(p, NX)
    at = a * NT + t
    regbits = [gen.ARCH[x][2] for x in x86] + [128, 256]
    szof = [TYPES[x][1] // 8 for x in ATYPES]
    size = lookup(Tb['T_size'], at); bsize = lookup(Tb['T_bsize'], at); regb = lookup(Tb['T_regbytes'], at); bb = lookup(Tb['T_batchbytes'], at)
    sz = lookup(szof, t); sz2 = lookup(Tb['T_sizeof'], t); rb = lookup([r // 8 for r in regbits], a)
    al = lookup(Tb['T_align'], a)
    dom = [inA, inT]
    def ispow2(x): return z3.And(x != 0, (x & (x - 1)) == 0)
    S.prove('sizeof(T) table matches the element widths', [inT], sz == sz2)
    S.prove('batch<T,A>::size * sizeof(T) == register width of A', dom, size * sz == rb)
    S.prove('batch<T,A> has a register (has_simd_register) for every element type', dom, lookup(Tb['T_hasreg'], at) == 1)
    S.prove('sizeof(batch<T,A>) == register width of A (no padding)', dom, bb == rb)
    S.prove('sizeof(register_type) == register width (vector ISAs); emulated: array of size elements', dom + [z3.Or(z3.ULT(a, NX), z3.UGE(a, NX))], regb == rb)
    S.prove('batch_bool<T,A>::size == batch<T,A>::size', dom, bsize == size)
    S.prove('batch<complex<float>,A>::size == batch<float,A>::size', [inA], lookup(Tb['T_csize'], a * 2) == lookup(Tb['T_size'], a * NT + ATYPES.index('f32')))
    S.prove('batch<complex<double>,A>::size == batch<double,A>::size', [inA], lookup(Tb['T_csize'], a * 2 + 1) == lookup(Tb['T_size'], a * NT + ATYPES.index('f64')))
    S.prove('A::alignment() is a power of two', [inA], ispow2(al))
    S.prove('A::alignment() >= register width in bytes (what an aligned full-register load requires) for vector ISAs', [inX], z3.UGE(al, rb))
    S.prove('requires_alignment() holds for every x86 vector ISA', [inX], lookup(Tb['T_reqalign'], a) == 1)
    S.prove('mask_type_t<batch<T,A>> is batch_bool<T,A>', dom, lookup(Tb['T_masktype'], at) == 1)
    S.prove('scalar_type_t / value_type of batch<T,A> is T', dom, lookup(Tb['T_scalartype'], at) == 1)
    S.prove('is_batch / is_batch_bool classify batch, batch_bool and scalars', dom, lookup(Tb['T_isbatch'], at) == 1)
    S.prove('simd_return_type<T,T,A> is batch<T,A>', dom, lookup(Tb['T_retsame'], at) == 1)
    S.prove('simd_return_type<bool,T,A> is batch_bool<T,A>', dom, lookup(Tb['T_boolret'], at) == 1)
    S.prove('simd_return_type<complex<T>,complex<T>,A> is batch<complex<T>,A>', [inA, z3.ULT(t, 2)], lookup(Tb['T_cret'], a * 2 + t) == 1)
    t2 = z3.BitVec('type2', W)
    S.prove('simd_return_type<From,To,A> is batch<To,A> for every pair of element types', dom + [z3.ULT(t2, NT)], lookup(Tb['T_retmix'], (a * NT + t) * NT + t2) == 1)
    S.prove('simd_return_type<complex<T1>,complex<T2>,A> and <complex<T1>,T2,A> are batch<complex<T2>,A> (same and different precision)', [inA, z3.ULT(t, 4)], lookup(Tb['T_cretmix'], a * 4 + t) == 1)
    S.prove('batch<T,A>::arch_type is A', dom, lookup(Tb['T_archtype'], at) == 1)
    S.prove('as_integer_t<T>: signed integer of the same width', [inT], lookup(Tb['T_asint'], t) == 1)
    S.prove('as_unsigned_integer_t<T>: unsigned integer of the same width', [inT], lookup(Tb['T_asuint'], t) == 1)
    S.prove('as_float_t<T>: floating type of the same width (32/64-bit T)', [z3.ULT(t, len(Tb['T_asfloat']))], lookup(Tb['T_asfloat'], t) == 1)
    # best-first list: positions, parents after children
    posall = lookup(Tb['T_pos_all'], a); possup = lookup(Tb['T_pos_sup'], a)
    S.prove('every x86 architecture is a member of all_x86_architectures', [inX], z3.ULT(posall, Tb['T_len'][0]))
    S.prove('all_x86_architectures has exactly the 23 members', [], z3.BoolVal(Tb['T_len'][0] == NX))
    b2 = z3.BitVec('arch2', W)
    S.prove('positions in all_x86_architectures are pairwise distinct', [inX, z3.ULT(b2, NX), a != b2], posall != lookup(Tb['T_pos_all'], b2))
    base = lookup(Tb['T_base'], a * NA + p)     # is_base_of<P, A>
    S.prove('extension parent (is_base_of<P,A>, P != A) appears after A in the best-first list', [inX, inP, a != p, base == 1], z3.UGT(lookup(Tb['T_pos_all'], p), posall))
    S.prove('a parent is never wider-aligned than its extension (kernel inherited from the parent is legal on A)', [inX, inP, base == 1], z3.ULE(lookup(Tb['T_align'], p), al))
    S.prove('a parent has the same register width or narrower than its extension', [inX, inP, base == 1], z3.ULE(lookup([r // 8 for r in regbits], p), rb))
    S.prove('supported_architectures contains A iff A::supported()', [inX], (lookup(Tb['T_contains'], a) == 1) == (lookup(Tb['T_supported'], a) == 1))
    S.prove('supported_architectures keeps the best-first order of all_x86_architectures', [inX, z3.ULT(b2, NX), lookup(Tb['T_contains'], a) == 1, lookup(Tb['T_contains'], b2) == 1, z3.ULT(posall, lookup(Tb['T_pos_all'], b2))],
            z3.ULT(possup, lookup(Tb['T_pos_sup'], b2)))
    S.prove('best_arch is the head of supported_architectures', [], z3.BoolVal(Tb['T_len'][2] == 0))
    # arch_list::alignment()
    la = Tb['T_listalign']
    alx = [Tb['T_align'][i] for i in range(NX)]
    S.prove('all_x86_architectures::alignment() is the maximum member alignment', [inX], z3.And(z3.ULE(al, la[0]), z3.BoolVal(la[0] in alx)))
    sup_al = [Tb['T_align'][i] for i in range(NX) if Tb['T_contains'][i] == 1]
    S.prove('supported_architectures::alignment() is the maximum member alignment', [inX, lookup(Tb['T_contains'], a) == 1], z3.And(z3.ULE(al, la[1]), z3.BoolVal(la[1] in sup_al)))
    S.fact('arch_list<>::alignment() == 0', la[2] == 0, str(la[2]))
    for j, c in enumerate(subs):
        want = max(Tb['T_align'][archs.index(x)] for x in c)
        S.fact('arch_list<%s>::alignment() == max' % ','.join(c), la[3 + j] == want, '%d vs %d' % (la[3 + j], want))
    # make_sized_batch
    ni = z3.BitVec('n', W)
    inN = z3.ULT(ni, len(NS))
    got = lookup(Tb['T_sized'], t * len(NS) + ni); gotb = lookup(Tb['T_sizedbytes'], t * len(NS) + ni)
    N_ = lookup(NS, ni)
    S.prove('make_sized_batch<T,N> is void or has exactly N lanes', [inT, inN], z3.Or(got == 0, got == N_))
    S.prove('make_sized_batch<T,N> is non-void exactly when some supported architecture has a register of N*sizeof(T) bytes', [inT, inN],
            (got != 0) == z3.Or(*[N_ * sz == r for r in sorted({regbits[i] // 8 for i in range(NX) if Tb['T_contains'][i] == 1})]))
    S.prove('make_sized_batch<T,N> register width is N*sizeof(T)', [inT, inN, got != 0], gotb == N_ * sz)
    # alignment attributes of aligned loads / stores
    n_al = align_items(S, tier, {x: Tb['T_align'][i] for i, x in enumerate(archs)})
    S.extra['aligned_access_bodies_checked'] = n_al
    rule = ('tables of integral constant expressions folded by clang from /repo headers; each relation is one solver query with symbolic architecture / type / list-position indices '
            '(ground facts, degenerate solver use, said so); plus symbolic execution of every load_aligned/store_aligned body: align attribute of each access divides A::alignment()')
    return S.finish(rule, min_obligations=40)


def align_items(S, tier, align_of):
    """every aligned load/store kernel: the align attribute of each access on the caller pointer divides A::alignment()"""
    ks = [k for k in K.c04(ALL_ARCHS) if k.op in ('load_aligned', 'store_aligned', 'load_tag_al', 'store_tag_al')]
    tus, dropped = gen.lower(ks, S.work)
    cnt = 0
    seen = set()
    for path in tus.values():
        mod = llir.parse_module(open(path).read())
        for k in ks:
            f = mod.funcs.get('@' + k.name)
            if f is None: continue
            h = llir.normalized_body(f)
            key = (h, gen.ARCH[k.arch][2])
            if key in seen: continue
            seen.add(key)
            run = harness.Run(k, mod)
            alA = align_of[k.arch]
            accs = [x for x in run.ex.accesses if run.ex.regions[x[5]].kind == 'ext']
            ok = bool(accs) and all((x[3] or 1) <= alA and alA % (x[3] or 1) == 0 for x in accs)
            S.fact('align attributes of %s divide A::alignment()' % k.name, ok, str([(x[3], x[2]) for x in accs]))
            cnt += 1
    return cnt
