"""C02 basic floating point: exact IEEE-754 per lane (SMT-LIB FloatingPoint theory as the oracle)."""
import z3
from .. import kernels as K, gen, specs
from ..engine import Oblig, region
from ..gen import TYPES, lanes
from ..symex import F
from .c03 import tobv, mask_lane_is

BOUNDS = ('every float32 / float64 bit pattern in every operand lane (all NaN payloads, infinities, signed zeros, subnormals), ldexp exponents: every int32/int64; '
          'RNE, no FTZ/DAZ; 23 x86 archs (fma3/fma4 kernels included).')
ASSUMPTIONS = ['clang-14 -O1 lowering is correct', 'x86 intrinsic models (min/max/fma/scalef/... per Intel SDM)', 'MXCSR default rounding (nearest-even), exceptions masked',
               'NaN payload/sign of an arithmetic NaN result is unspecified (results compared as IEEE values); min/max claimed for non-NaN operands only (as the property states)',
               'fma family: either the fused or the multiply-then-add result is accepted (as the property states)']
MIN_COVERED = {'quick': 1400, 'thorough': 1500}
JOB_BUDGET = {'quick': 700, 'thorough': 7200}   # wall clock per kernel body: a seeded / real defect on float64 fma-class kernels otherwise costs several 400 s searches per lane
TIMEOUT = {'quick': 400, 'thorough': 1200}     # is_even/is_odd<double> on the conversion-based sse2 trunc need ~110 s per lane


def kernels(tier, seed):
    archs = gen.ALL_ARCHS + (['emu128', 'emu256'] if tier == 'thorough' else [])
    return K.c02(archs)


def bits_of(x): return x.bits() if isinstance(x, F) else x


PRED = ('isnan', 'isinf', 'isfinite', 'is_flint', 'is_even', 'is_odd')


def obligations(run):
    k = run.k; op = k.op
    w = TYPES[k.ty][1]; n = lanes(k.ty, k.arch)
    D = run.desc
    obs = []
    for i in range(n):
        ops = []; ren = {}
        for d, role in zip(D, 'abc'):
            x = d['lanes'][i] if d['kind'] == 'v' else d['sym']
            ops.append(x); ren[x.decl().name()] = role
        if op in PRED:
            truth = specs.fp_pred(op, w, ops[0])
            obs.append(Oblig(op, True, (lambda i, truth: lambda res: mask_lane_is(res[i], truth, w))(i, truth), lane=i, rename=ren, region_args=ops))
        elif op == 'frexp_m':
            # the mantissa alone: sign and range; the joint (m, e) relation is stated on frexp_e's twin run below
            x = specs.fpv(ops[0], w)
            def post(res, i=i, x=x, a=ops[0]):
                m = specs.RB(res[i], w); M = specs.RF(res[i], w)
                fin = z3.And(z3.Not(z3.fpIsNaN(x)), z3.Not(z3.fpIsInf(x)), z3.Not(z3.fpIsZero(x)))
                am = z3.fpAbs(M)
                return z3.If(fin, z3.And(z3.fpGEQ(am, specs.fpc(0.5, w)), z3.fpLT(am, specs.fpc(1.0, w)), z3.fpIsNegative(M) == z3.fpIsNegative(x)),
                             z3.If(z3.fpIsNaN(x), z3.fpIsNaN(M), m == a))
            obs.append(Oblig(op, True, post, lane=i, rename=ren, region_args=ops))
        elif op == 'frexp_e':
            # exponent: x == m * 2^e with m in [0.5, 1): equivalently 2^(e-1) <= |x| < 2^e
            x = specs.fpv(ops[0], w)
            def post(res, i=i, x=x):
                e = tobv(res[i] if not isinstance(res[i], F) else res[i].bits(), w)
                fin = z3.And(z3.Not(z3.fpIsNaN(x)), z3.Not(z3.fpIsInf(x)), z3.Not(z3.fpIsZero(x)))
                lim = 400 if w == 32 else 3000
                xw = z3.fpAbs(z3.fpFPToFP(specs.RNE, x, specs.WIDE(w)))
                return z3.If(fin, z3.And(e >= -lim, e <= lim, z3.fpGEQ(xw, specs.pow2_wide(e - 1, w)), z3.fpLT(xw, specs.pow2_wide(e, w))),
                             z3.If(z3.fpIsZero(x), e == 0, z3.BoolVal(True)))
            obs.append(Oblig(op, True, post, lane=i, rename=ren, region_args=ops))
        else:
            pre, post = specs.fp_spec(op, w, *ops)
            obs.append(Oblig(op, pre, (lambda i, post: lambda res: post(res[i]))(i, post), lane=i, rename=ren, region_args=ops))
    return obs


@region('ldexp_exponent_out_of_range')
def _r1(k, a, e):
    w = TYPES[k.ty][1]
    lo, hi = (-126, 127) if w == 32 else (-1022, 1023)
    return z3.Or(e < lo, e > hi)


@region('frexp_subnormal_or_nonfinite')
def _r2(k, a):
    w = TYPES[k.ty][1]
    ew, mw = (8, 23) if w == 32 else (11, 52)
    ex = z3.Extract(w - 2, mw, a); man = z3.Extract(mw - 1, 0, a)
    return z3.Or(ex == (1 << ew) - 1, z3.And(ex == 0, man != 0))


@region('ldexp_exponent_not_int32')
def _r3(k, a, e):
    if e.size() != 64: return z3.BoolVal(False)
    return z3.Or(e < -(1 << 31), e > (1 << 31) - 1)
