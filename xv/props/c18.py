"""C18 aligned_allocator / is_aligned / get_alignment_offset.

allocate(n): symbolic n; posix_memalign is a contract-constrained nondeterministic stub (returns non-zero and leaves *p, or returns 0 and
sets *p to a fresh pointer that is a multiple of the alignment and addresses exactly `size` bytes); __cxa_throw ends the path with outcome
"throws <typeinfo>".  Obligation: every path either throws std::bad_alloc or returns the stub's pointer, aligned, with the requested block
size >= n*sizeof(T) computed in 128-bit arithmetic (so a wrapped multiplication is a counterexample).
deallocate(p): exactly one free(p) of the unchanged pointer.  The allocator is stateless (its IR touches no global), so one step from an
arbitrary state covers every allocate/deallocate history."""
import re, struct
import z3
from .. import custom, gen, symex, llir
from ..symex import Executor, Ptr, bv, is_c
from ..llir import PtrT, IntT

BOUNDS = ('allocate: every n in [0, 2^64), T in {char, int32_t, double, 32-byte struct}, Align in {8,16,32,64,4096}; posix_memalign/free as contract stubs; '
          'is_aligned: every pointer value, archs sse2/avx/avx512f; get_alignment_offset: every pointer, every size < 2^64, every power-of-two block_size <= 64, T in {char,int32,double,32-byte struct of alignment 1,std::complex<double>}')
ASSUMPTIONS = ['posix_memalign contract (POSIX): on success *memptr is a multiple of alignment and addresses size bytes; on failure *memptr is unchanged (glibc) ',
               'free(p) releases exactly the block p', 'clang-14 -O1 -fexceptions lowering is correct']

TYPES = [('c', 'char', 1), ('i', 'int32_t', 4), ('d', 'double', 8), ('s', 'S32', 32)]
ALIGNS = [8, 16, 32, 64, 4096]
# get_alignment_offset: element types with alignof(T) == sizeof(T) and with alignof(T) < sizeof(T) (seed C18-1 confused the two)
GAO_TYPES = TYPES + [('z', 'std::complex<double>', 16)]
ARCHS = [('sse2', 'xsimd::sse2', 16), ('avx', 'xsimd::avx', 32), ('avx512f', 'xsimd::avx512f', 64)]


def source():
    out = ['#include <xsimd/xsimd.hpp>', '#include <cstdint>', '#include <cstddef>', '#define W extern "C" __attribute__((noinline))', 'struct S32 { char x[32]; };']
    for t, ct, sz in TYPES:
        for a in ALIGNS:
            out.append('W %s* alloc_%s_%d(size_t n){ xsimd::aligned_allocator<%s,%d> a; return a.allocate(n); }' % (ct, t, a, ct, a))
            out.append('W void dealloc_%s_%d(%s* p, size_t n){ xsimd::aligned_allocator<%s,%d> a; a.deallocate(p, n); }' % (t, a, ct, ct, a))
    for a in ALIGNS[:4]:
        for b in ALIGNS[:4]:
            out.append('W bool eq_%d_%d(){ return xsimd::aligned_allocator<double,%d>() == xsimd::aligned_allocator<double,%d>(); }' % (a, b, a, b))
            out.append('W bool ne_%d_%d(){ return xsimd::aligned_allocator<double,%d>() != xsimd::aligned_allocator<double,%d>(); }' % (a, b, a, b))
    for nm, ca, al in ARCHS:
        out.append('W bool isal_%s(void const* p){ return xsimd::is_aligned<%s>(p); }' % (nm, ca))
    for t, ct, sz in GAO_TYPES:
        out.append('W size_t gao_%s(const %s* p, size_t size, size_t block){ return xsimd::get_alignment_offset(p, size, block); }' % (t, ct))
    return '\n'.join(out) + '\n'


class Env:
    """stub environment: records the external call trace"""

    def __init__(s):
        s.trace = []    # (pc, name, dict)

    def handler(s, ex, st, ins, name, args):
        nm = name[1:]
        if nm == 'posix_memalign':
            rc = symex.fresh('memalign_rc', 32)
            P = symex.fresh('memalign_ptr', 64)
            al, size = args[1], args[2]
            ok = rc == 0
            old = ex.load(st, PtrT(IntT(8)), args[0], 8)
            ex.store(st, PtrT(IntT(8)), ex.merge_ptr(ok, Ptr(None, P), old), args[0], 8)
            # contract: a successful call returns a non-null multiple of the alignment
            ex.side.append(z3.Implies(ok, z3.And(P != 0, z3.URem(P, bv(al, 64)) == 0)))
            s.trace.append((list(st.pc), 'posix_memalign', dict(rc=rc, P=P, alignment=al, size=size)))
            return rc
        if nm == 'free':
            s.trace.append((list(st.pc), 'free', dict(p=ex.ptr_to_int(args[0]))))
            return None
        if nm == '__cxa_allocate_exception':
            rid = ex.new_region('alloca', args[0] if is_c(args[0]) else 64, 16, 'exception')
            st.mem[rid] = [None] * ex.regions[rid].size
            return Ptr(rid, 0)
        if nm == '__cxa_throw':
            ti = args[1]
            tname = ex.regions[ti.rid].name if isinstance(ti, Ptr) and ti.rid is not None else '?'
            s.trace.append((list(st.pc), 'throw', dict(type=tname)))
            st.dead = True; st.outcome = 'throws ' + tname
            return None
        return NotImplemented


def main(tier, seed):
    S = custom.Session('C18', tier, seed, BOUNDS, ASSUMPTIONS)
    mod = S.compile('alloc', source(), fexc=True)
    for t, ct, sz in TYPES:
        for al in ALIGNS:
            # ---------------- allocate
            fn = '@alloc_%s_%d' % (t, al)
            env = Env(); ex = Executor(mod, stubs={'*': env.handler}, fork_timeout_ms=5000)
            n = z3.BitVec('n', 64)
            st = ex.run(fn, [n])
            S.functions.append(fn[1:])
            calls = [e for e in env.trace if e[1] == 'posix_memalign']; throws = [e for e in env.trace if e[1] == 'throw']
            S.fact('%s: exactly one posix_memalign call' % fn, len(calls) == 1, str(len(calls)))
            if len(calls) != 1: continue
            c = calls[0][2]
            thrown = z3.Or(*[z3.And(*pc) if pc else z3.BoolVal(True) for pc, _, _ in throws]) if throws else z3.BoolVal(False)
            for pc, _, d in throws:
                S.fact('%s: thrown type is std::bad_alloc' % fn, 'bad_alloc' in d['type'], d['type'])
            base = list(ex.side)
            if st.dead:
                S.fact('%s: a returning path exists' % fn, False); continue
            ret = ex.ptr_to_int(st.ret)
            need = z3.ZeroExt(64, n) * z3.BitVecVal(sz, 128)
            got = z3.ZeroExt(64, bv(c['size'], 64))
            goal = z3.And(c['rc'] == 0, ret == c['P'], ret != 0, z3.URem(ret, z3.BitVecVal(al, 64)) == 0, z3.UGE(got, need), bv(c['alignment'], 64) == al)
            S.prove('%s: returns aligned block of >= n*sizeof(T) bytes or throws' % fn, base + [z3.Not(thrown)], goal,
                    replay=alloc_replay(S, t, ct, sz, al, n), region={'size_overflow': z3.UGT(need, z3.BitVecVal((1 << 64) - 1, 128))})
            # failure of the underlying allocation is reported by an exception, never by a null/garbage return
            S.prove('%s: allocation failure => bad_alloc' % fn, base + [c['rc'] != 0], thrown)
            # ---------------- deallocate
            fn = '@dealloc_%s_%d' % (t, al)
            env = Env(); ex = Executor(mod, stubs={'*': env.handler})
            p = z3.BitVec('p', 64); nn = z3.BitVec('n', 64)
            st = ex.run(fn, [Ptr(None, p), nn])
            S.functions.append(fn[1:])
            frees = [e for e in env.trace if e[1] == 'free']
            S.fact('%s: exactly one free' % fn, len(frees) == 1 and not frees[0][0] and len(env.trace) == 1, str(env.trace))
            if len(frees) == 1:
                S.prove('%s: frees the pointer it was given' % fn, [], frees[0][2]['p'] == p, witness=False)
            # statelessness: no global is read or written by allocate/deallocate
            for f_ in ('@alloc_%s_%d' % (t, al), '@dealloc_%s_%d' % (t, al)):
                txt = '\n'.join(mod.funcs[f_].text)
                glob = re.findall(r'(load|store)[^\n]*@(?!_ZTV|_ZTI)', txt)
                S.fact('%s: touches no global state' % f_, not glob, str(glob))
    # ---------------- operator== / !=
    for a in ALIGNS[:4]:
        for b in ALIGNS[:4]:
            for op, want in (('eq', a == b), ('ne', a != b)):
                ex = Executor(mod); st = ex.run('@%s_%d_%d' % (op, a, b), [])
                S.fact('%s_%d_%d folds to %s' % (op, a, b, want), st.ret is want or (not is_c(st.ret) and z3.is_true(z3.simplify(st.ret == want))), str(st.ret))
    # ---------------- is_aligned
    for nm, ca, al in ARCHS:
        ex = Executor(mod); p = z3.BitVec('p', 64)
        st = ex.run('@isal_' + nm, [Ptr(None, p)])
        S.functions.append('isal_' + nm)
        r = st.ret if not isinstance(st.ret, bool) else z3.BoolVal(st.ret)
        S.prove('is_aligned<%s>(p) <=> p mod %d == 0' % (nm, al), [], r == (z3.URem(p, z3.BitVecVal(al, 64)) == 0), witness=False,
                replay=lambda m, rdir, nm=nm, p=p, al=al: isal_replay(S, nm, m.eval(p, model_completion=True).as_long(), al, rdir))
    # ---------------- get_alignment_offset
    for t, ct, sz in GAO_TYPES:
        ex = Executor(mod); p = z3.BitVec('p', 64); size = z3.BitVec('size', 64); block = z3.BitVec('block', 64)
        # block_size 1 with a pointer that is not a multiple of sizeof(T) is outside the claim: the library defines the answer as 0
        # there ("scalar blocks need no alignment"), and such a pointer is not a valid T* anyway
        pre = [z3.Or(*[block == (1 << i) for i in range(7)]), z3.Implies(block == 1, z3.URem(p, z3.BitVecVal(sz, 64)) == 0)]
        ex.assume = list(pre)
        st = ex.run('@gao_' + t, [Ptr(None, p), size, block])
        S.functions.append('gao_' + t)
        r = st.ret
        for bi in range(7):
            bc = z3.BitVecVal(1 << bi, 64)
            def aligned(k):
                return z3.URem(p + k * z3.BitVecVal(sz, 64), z3.BitVecVal((1 << bi) * sz, 64)) == 0
            rr = z3.substitute(r, (block, bc)) if not is_c(r) else r
            goal = [z3.ULE(rr, size), z3.Implies(z3.ULT(rr, size), aligned(rr))]
            for k in range(1 << bi):     # minimality: no aligned position below the result (positions repeat with period block)
                goal.append(z3.Implies(z3.ULT(z3.BitVecVal(k, 64), rr), z3.Not(aligned(z3.BitVecVal(k, 64)))))
            goal.append(z3.Implies(z3.UGE(rr, bc), z3.And(rr == size, *[z3.Not(aligned(z3.BitVecVal(k, 64))) for k in range(1 << bi)])))
            prek = [z3.substitute(a, (block, bc)) for a in pre[1:] + list(ex.side)]
            S.prove('get_alignment_offset<%s>(block=%d): smallest k <= size with p+k block-aligned, else size' % (ct, 1 << bi), prek, z3.And(*goal),
                    replay=lambda m, rdir, t=t, ct=ct, sz=sz, p=p, size=size, bc=bc: gao_replay(S, t, ct, sz, m, p, size, bc, rdir))
    return S.finish('one obligation per (entry point, T, Align) and post-condition; inputs (n, pointer values, sizes, allocator outcome) are symbolic 64-bit values; '
                    'ground facts (call counts, folded constants) are counted as obligations closed without search', min_obligations=150)


def alloc_replay(S, t, ct, sz, al, n):
    def fn(m, rdir):
        nv = m.eval(n, model_completion=True).as_long()
        # the replay program interposes posix_memalign (the executable's definition wins over libc's) to observe the size the allocator
        # really asks for: a pointer returned for a block smaller than n*sizeof(T) reproduces the violation
        main = r'''
#include <cstdio>
#include <cstdlib>
#include <new>
static unsigned long long g_req = 0;
extern "C" int posix_memalign(void** p, size_t al, size_t size) noexcept {
  g_req = size;
  if (size > (1ULL << 34)) return 12;
  void* q = aligned_alloc(al, size ? ((size + al - 1) / al * al) : al);
  if (!q) return 12;
  *p = q; return 0;
}
int main(){ size_t n = %dULL; try { %s* p = alloc_%s_%d(n); std::printf("ptr %%d req %%llu\n", p != nullptr, g_req); } catch (std::bad_alloc&) { std::printf("bad_alloc\n"); } return 0; }
''' % (nv, ct, t, al)
        out, why = S.native('alloc', main, rdir, fexc=True)
        info = dict(inputs=dict(n=nv, T=ct, Align=al), why=why, native=out)
        if out is None: return None, info
        if not out.startswith('ptr 1'): return False, info
        req = int(out.split('req')[1].strip())
        # a pointer returned although the block asked from the system cannot hold n objects (n*sizeof(T) in unbounded arithmetic)
        return (req < nv * sz), info
    return fn


def isal_replay(S, nm, pv, al, rdir):
    main = '#include <cstdio>\nint main(){ std::printf("%%d\\n", (int)isal_%s((void const*)%dULL)); }' % (nm, pv)
    out, why = S.native('alloc', main, rdir, fexc=True)
    info = dict(inputs=dict(p=hex(pv)), native=out, why=why)
    if out is None: return None, info
    return (int(out.strip()) != int(pv % al == 0)), info


def gao_replay(S, t, ct, sz, m, p, size, block, rdir):
    pv, sv, bvv = [m.eval(x, model_completion=True).as_long() for x in (p, size, block)]
    main = '#include <cstdio>\nint main(){ std::printf("%%zu\\n", gao_%s((const %s*)%dULL, %dULL, %dULL)); }' % (t, ct, pv, sv, bvv)
    out, why = S.native('alloc', main, rdir, fexc=True)
    info = dict(inputs=dict(p=hex(pv), size=sv, block=bvv), native=out, why=why)
    if out is None: return None, info
    r = int(out.strip())
    al = lambda k: (pv + k * sz) % (bvv * sz) == 0
    want = next((k for k in range(min(sv, 64) + 1) if k <= sv and (al(k) if k < sv else True)), sv)
    ok = r <= sv and (r == sv or al(r)) and not any(al(k) for k in range(min(r, 64)))
    return (not ok), info
