"""C13 lane independence (2-safety / non-interference), spec-free.

For every element-wise kernel body of C01/C02/C03/C06/C07/C08 and every lane k:
  (NI)  two executions whose inputs agree on lane k (and on scalar operands) and are arbitrary elsewhere give the same lane-k result;
  (BC)  with all lanes holding the lane-k operands, lane j's result equals lane k's result (broadcast => all lanes identical).
The second execution is obtained by substituting fresh symbols for the other lanes' inputs in the result term of the real code
(the term is a function of the inputs only, so this is exactly the self-composition product query).  Symbols the executor introduced
for unspecified values (undef lanes, out-of-range results, NaN payloads) are renamed as well: a result that depends on one is reported.
Floating-point results are compared as FloatingPoint values (all NaNs equal: NaN payloads are outside the model)."""
import z3
from .. import kernels as K, gen
from ..engine import Oblig
from ..gen import TYPES, lanes
from ..symex import F, mask
from ..harness import consts_of, model_inputs
from .. import engine

BOUNDS = ('every distinct body of the element-wise kernels of C01, C03 (comparisons, select), C07 and, for float/double, C02/C06/C08; all lanes k; '
          'full-width registers; exact bit-vector / FloatingPoint semantics. Elementary functions (C10-C12 kernels): see evidence key math_functions.')
ASSUMPTIONS = ['clang-14 -O1 lowering is correct', 'x86 intrinsic models', 'NaN payload bits are outside the model (FP results compared as IEEE values)',
               'preconditions of the operations (non-zero divisors, counts < bits) apply to both executions']
from .c01 import LEMMAS
MIN_COVERED = {'quick': 5000, 'thorough': 6000}


def kernels(tier, seed):
    archs = gen.ALL_ARCHS
    ks = []
    for k in K.c01(archs) + K.c07(archs):
        k.prop = 'C13'; ks.append(k)
    for k in K.c03(archs):
        if k.op in ('eq', 'ne', 'lt', 'le', 'gt', 'ge', 'select', 'mand', 'mor', 'mxor', 'mnot', 'to01'):
            ks.append(k)
    if hasattr(K, 'c02'):
        ks += K.c02(archs, elementwise_only=True)
    if hasattr(K, 'c08'):
        ks += K.c08(archs)
    if hasattr(K, 'c06'):
        ks += K.c06(archs, elementwise_only=True)
    return ks


def exec_opts(k):
    # out-of-range shift counts (rotl(x,0) computes x >> bits): result is one of the two x86 lowerings, chosen per instruction
    return {'ubshift_mode': 'x86'}


def assume(run):
    """operation preconditions, on every lane (both executions satisfy them)"""
    k = run.k
    out = []
    w = TYPES[k.ty][1]; sg = TYPES[k.ty][2]
    if k.op in ('div', 'mod'):
        for a, b in zip(run.desc[0]['lanes'], run.desc[1]['lanes']):
            out.append(b != 0)
            if sg: out.append(z3.Not(z3.And(a == (1 << (w - 1)), b == mask(w))))
    if k.op in ('shl', 'shr', 'rotl', 'rotr'):
        out.append(z3.ULT(run.desc[1]['sym'], w))
    if k.op in ('shlv', 'shrv', 'rotlv', 'rotrv'):
        for b in run.desc[1]['lanes']: out.append(z3.ULT(b, w))
    return out


def lane_val(res, i):
    x = res[i]
    if isinstance(x, tuple): return x[1]
    return x


def same(a, b):
    if isinstance(a, F) or isinstance(b, F):
        return a.fp() == b.fp()
    if isinstance(a, int) and isinstance(b, int): return z3.BoolVal(a == b)
    if isinstance(a, bool) or isinstance(b, bool) or z3.is_bool(a) or z3.is_bool(b):
        ab = z3.BoolVal(a) if isinstance(a, bool) else a; bb = z3.BoolVal(b) if isinstance(b, bool) else b
        return ab == bb
    return a == b


def term_of(x):
    if isinstance(x, F): return x.fp() if x._bits is None else x.bits()
    return x


def subst_val(x, pairs):
    if isinstance(x, F):
        if x._bits is not None and not isinstance(x._bits, int):
            return F(x.n, bits=z3.substitute(x._bits, *pairs))
        if x._bits is not None: return x
        return F(x.n, fp=z3.substitute(x._fp, *pairs))
    if isinstance(x, (int, bool)): return x
    return z3.substitute(x, *pairs)


def obligations(run):
    k = run.k
    n = lanes(k.ty, k.arch)
    D = run.desc
    obs = []
    pre_all = list(run.ex.assume)
    # primed copies of every input lane symbol and of every executor-fresh symbol (undef lanes, out-of-range results)
    prime = {}
    lane_vars = []   # (lane index, symbol)
    for d in D:
        if d['kind'] == 'v':
            for j, x in enumerate(d['lanes']): lane_vars.append((j, x)); prime[x.get_id()] = z3.BitVec(x.decl().name() + "'", x.size())
        elif d['kind'] == 'm':
            for j, x in enumerate(d['bools']): lane_vars.append((j, x)); prime[x.get_id()] = z3.Bool(x.decl().name() + "'")
    fresh_pairs = [(c, z3.Const(c.decl().name() + "'", c.sort())) for c in run.ex.fresh_log
                   if not c.decl().name().startswith(('nanbits', 'ubchoice'))]
    for i in range(n):
        r = lane_val(run.res, i)
        if isinstance(r, (int, bool)):
            continue
        ren = {}
        for d, role in zip(D, 'abcdefgh'):
            if d['kind'] == 'v': ren[d['lanes'][i].decl().name()] = role
            elif d['kind'] == 'm': ren[d['bools'][i].decl().name()] = role
            elif d['kind'] in ('s', 'z', 'T'): ren[d['sym'].decl().name()] = role
        pairs = [(x, prime[x.get_id()]) for j, x in lane_vars if j != i] + fresh_pairs
        r2 = subst_val(r, pairs) if pairs else r
        if term_of(r2).eq(term_of(r)):
            # the lane's term mentions no other lane and no unspecified value: closed syntactically
            obs.append(Oblig('noninterference', True, (lambda: lambda res: z3.BoolVal(True))(), lane=i, rename=ren, kind='ni'))
        else:
            pre2 = [z3.substitute(p, *pairs) for p in pre_all] if pre_all else []
            obs.append(Oblig('noninterference', z3.And(*pre2) if pre2 else True, (lambda i, r2: lambda res: same(lane_val(res, i), r2))(i, r2), lane=i, rename=ren, kind='ni', replay_fn=replay_ni(i, pairs)))
        # broadcast: every lane holds lane i's operands => lane j's result equals lane i's
        j = (i + 1) % n
        if j != i:
            rj = lane_val(run.res, j)
            if not isinstance(rj, (int, bool)):
                bp = []
                for d in D:
                    if d['kind'] == 'v': bp += [(x, d['lanes'][i]) for q, x in enumerate(d['lanes']) if q != i]
                    elif d['kind'] == 'm': bp += [(x, d['bools'][i]) for q, x in enumerate(d['bools']) if q != i]
                ri_b = subst_val(r, bp); rj_b = subst_val(rj, bp)
                if term_of(ri_b).eq(term_of(rj_b)):
                    obs.append(Oblig('broadcast', True, (lambda: lambda res: z3.BoolVal(True))(), lane=i, rename=ren, kind='bc'))
                else:
                    preb = [z3.substitute(p, *bp) for p in pre_all] if pre_all else []
                    obs.append(Oblig('broadcast', z3.And(*preb) if preb else True, (lambda ri_b, rj_b: lambda res: same(ri_b, rj_b))(ri_b, rj_b), lane=i, rename=ren, kind='bc', replay_fn=replay_bc(i, j)))
    return obs


def _ev(m, x):
    v = m.eval(x, model_completion=True)
    if z3.is_bool(v): return bool(z3.is_true(v))
    return v.as_long()


def _lane_bytes(k, raw, i):
    rk, rty = k.ret
    w = TYPES[rty][1]
    if rk == 'm' and gen.is_avx512(k.arch):
        return (int.from_bytes(raw, 'little') >> i) & 1
    return int.from_bytes(raw[i * w // 8:(i + 1) * w // 8], 'little')


def _isnan(k, v):
    rk, rty = k.ret
    if rk != 'v' or TYPES[rty][3] != 'fp': return False
    w = TYPES[rty][1]
    e, mn = (8, 23) if w == 32 else (11, 52)
    return ((v >> mn) & ((1 << e) - 1)) == (1 << e) - 1 and (v & ((1 << mn) - 1)) != 0


def replay_ni(i, pairs):
    def fn(m, run, rdir):
        k = run.k
        in1 = model_inputs(m, run.desc)
        in2 = {a: (list(v) if isinstance(v, list) else v) for a, v in in1.items()}
        pm = {x.decl().name(): xp for x, xp in pairs}
        for d in run.desc:
            if d['kind'] == 'v':
                for j, x in enumerate(d['lanes']):
                    if x.decl().name() in pm: in2[d['name']][j] = _ev(m, pm[x.decl().name()])
            elif d['kind'] == 'm':
                for j, x in enumerate(d['bools']):
                    if x.decl().name() in pm: in2[d['name']][j] = _ev(m, pm[x.decl().name()])
        r1, w1 = engine.native_run(k, in1, rdir, 'replay')
        r2, w2 = engine.native_run(k, in2, rdir, 'replay2')
        info = dict(inputs=dict(run1=_hex(in1), run2=_hex(in2)), lane=i, why=w1 if r1 is None else w2)
        if r1 is None or r2 is None: return None, info
        a, b = _lane_bytes(k, r1, i), _lane_bytes(k, r2, i)
        info['native'] = '%x vs %x' % (a, b)
        return (a != b and not (_isnan(k, a) and _isnan(k, b))), info
    return fn


def replay_bc(i, j):
    def fn(m, run, rdir):
        k = run.k
        in1 = model_inputs(m, run.desc)
        for d in run.desc:
            if d['kind'] in ('v', 'm'): in1[d['name']] = [in1[d['name']][i]] * len(in1[d['name']])
        r1, w1 = engine.native_run(k, in1, rdir, 'replay')
        info = dict(inputs=_hex(in1), lanes=[i, j], why=w1)
        if r1 is None: return None, info
        a, b = _lane_bytes(k, r1, i), _lane_bytes(k, r1, j)
        info['native'] = '%x vs %x' % (a, b)
        return (a != b and not (_isnan(k, a) and _isnan(k, b))), info
    return fn


def _hex(inp):
    return {a: ([hex(x) if not isinstance(x, bool) else x for x in v] if isinstance(v, list) else v) for a, v in inp.items()}


def _const_terms(e):
    seen = set(); out = []; st = [e]
    while st:
        x = st.pop()
        i = x.get_id()
        if i in seen: continue
        seen.add(i)
        if z3.is_const(x) and x.decl().kind() == z3.Z3_OP_UNINTERPRETED: out.append(x)
        else: st.extend(x.children())
    return out
