"""C04 loads / stores: lane i <-> element i, exact access footprint, alignment attributes justified by the entry point's contract,
gather/scatter address sets, broadcast / element-list constructor / get(i) lane numbering.

Caller memory is a symbolic array (BV64 -> BV8) and the pointer a symbolic 64-bit base, so one query covers every pointer offset,
page position and memory content.  Every memory access the kernel performs is logged by the executor (address term, width, align
attribute, direction, path condition); the footprint and alignment obligations quantify over that log."""
import z3
from .. import kernels as K, gen, engine
from ..engine import Oblig
from ..gen import TYPES, lanes
from ..symex import F, mask
from ..harness import model_inputs
from .c03 import tobv, mask_lane_is

BOUNDS = ('every pointer value (symbolic 64-bit base; aligned entry points: base mod A::alignment() == 0), every memory content, every index vector '
          '(gather/scatter indices are symbolic same-width signed integers; value claim of scatter under pairwise-distinct indices); 10 element types x 23 x86 archs. '
          'Outside: cache/page-fault timing, NEON/SVE/RVV/WASM intrinsics.')
ASSUMPTIONS = ['clang-14 -O1 lowering is correct (including the align attribute it attaches to each load/store)', 'x86 intrinsic models',
               'aligned entry points are called with pointers that are multiples of A::alignment(); unaligned ones with arbitrary pointers',
               'address arithmetic does not wrap around 2^64 (the accessed object lies inside the address space)',
               'bool arrays hold 0/1']
MIN_COVERED = {'quick': 3500, 'thorough': 4000}


def kernels(tier, seed):
    archs = gen.ALL_ARCHS + (['emu128', 'emu256'] if tier == 'thorough' else [])
    ks = K.c04(archs)
    # insert<I>: lane I receives the scalar (every bit pattern), every other lane keeps its contents (index-level spec shared with C05)
    for arch in gen.ALL_ARCHS:
        for ty in gen.ATYPES:
            n = lanes(ty, arch)
            for I in (range(n) if tier == 'thorough' else sorted({0, 1, n // 2, n - 1})):
                ks.append(K.mk('C04', 'insert', 'vT', 'v', 'xsimd::insert(a, b, xsimd::index<%d>())' % I, ty, arch, variant=str(I), meta={'I': I}))
    return ks


def regbytes(k):
    return (int(k.arch[3:]) if k.arch.startswith('emu') else gen.ARCH[k.arch][2]) // 8


def assume(run):
    k = run.k; out = []
    n = lanes(k.ty, k.arch); sz = TYPES[k.ty][1] // 8
    for d in run.desc:
        if d['kind'] == 'ptr':
            base = d['base']
            total = n * (1 if k.op.startswith('bool') else sz)
            # the object does not wrap around the end of the address space
            out.append(z3.ULE(base, z3.BitVecVal((1 << 64) - 1 - 4096, 64)))
            if k.meta.get('aligned'):
                out.append(z3.URem(base, z3.BitVecVal(regbytes(k), 64)) == 0)
            else:
                out.append(z3.URem(base, z3.BitVecVal(1 if k.op.startswith('bool') else sz, 64)) == 0 if k.op in ('gather', 'scatter') else z3.BoolVal(True))
            if k.op == 'bool_load':
                for i in range(n): out.append(z3.ULE(z3.Select(run.ex.ext0, base + i), z3.BitVecVal(1, 8)))
    if k.op == 'get':
        out.append(z3.ULT(run.desc[1]['sym'], n))
    if k.op in ('gather', 'scatter'):
        # indices small enough that element addresses stay inside the address space (|idx| < 2^31 elements around base)
        idx = run.desc[-1]['lanes']; w = TYPES[k.ty][1]
        base = run.desc[0]['base']
        out.append(z3.And(z3.UGE(base, z3.BitVecVal(1 << 40, 64)), z3.ULE(base, z3.BitVecVal(1 << 62, 64))))
        if w == 64:
            for x in idx: out.append(z3.And(x >= -(1 << 32), x <= (1 << 32)))
    return out


def bits_of(x):
    return x.bits() if isinstance(x, F) else x


def elem(run, arg, i, sz, off0=0):
    bs = [run.mem0(arg, off0 + i * sz + q) for q in reversed(range(sz))]
    return z3.Concat(*bs) if sz > 1 else bs[0]


def access_obligs(run, k, arg, total, what):
    """footprint + alignment obligations over the executor's access log for pointer argument `arg`"""
    ex = run.ex
    d = [x for x in run.desc if x['kind'] == 'ptr' and x['name'] == arg][0]
    base = d['base']; rid = d['ptr'].rid
    obs = []
    acc = [a for a in ex.accesses if a[5] == rid and a[4] in what]
    T64 = z3.BitVecVal(total, 64)
    for j, (pc, addr, nb, al, rw, _, off) in enumerate(acc):
        o = addr - base
        pre = z3.And(*pc) if pc else True
        obs.append(Oblig('footprint.%s%d' % (rw, j), pre, (lambda o, nb: lambda res: z3.And(z3.ULE(o, T64 - nb), z3.ULE(z3.BitVecVal(nb, 64), T64)))(o, nb), kind='footprint',
                         replay_fn=footprint_replay(arg, total, rw)))
        if al and al > 1:
            obs.append(Oblig('align%d.%s%d' % (al, rw, j), pre, (lambda addr, al: lambda res: z3.URem(addr, z3.BitVecVal(al, 64)) == 0)(addr, al), kind='align',
                             replay_fn=align_replay()))
    # coverage: every byte of [0,total) is touched by some access
    if acc:
        def cover(res):
            cs = []
            for b in range(total):
                hit = []
                for (pc, addr, nb, al, rw, _, off) in acc:
                    o = addr - base
                    c = z3.And(z3.ULE(o, z3.BitVecVal(b, 64)), z3.ULT(z3.BitVecVal(b, 64) - o, z3.BitVecVal(nb, 64)))
                    hit.append(z3.And(*(pc + [c])) if pc else c)
                cs.append(z3.Or(*hit))
            return z3.And(*cs)
        obs.append(Oblig('footprint.cover', True, cover, kind='footprint'))
    else:
        obs.append(Oblig('footprint.cover', True, lambda res: z3.BoolVal(False), kind='footprint'))
    return obs


def footprint_replay(arg, total, rw):
    """a write outside [p, p+total) is observable natively (canary bytes); a stray read is not, unless it faults"""
    def fn(m, run, rdir):
        k = run.k
        inputs = model_inputs(m, run.desc, run.ex)
        raw, why = engine.native_run(k, inputs, rdir)
        info = dict(inputs=engine.show_inputs(inputs), why=why)
        if raw is None:
            return (True if 'exit -11' in why or 'exit -7' in why else None), info
        if rw == 'w' and arg in raw.mem:
            lo, bs = raw.mem[arg]
            known = inputs[arg]['bytes']
            for off in list(range(lo, 0)) + list(range(total, lo + len(bs))):
                want = known.get(off, 0xA5)
                if bs[off - lo] != want:
                    info['native'] = 'byte at offset %d outside the object modified: %02x' % (off, bs[off - lo]); return True, info
        return None, info
    return fn


def align_replay():
    def fn(m, run, rdir):
        k = run.k
        inputs = model_inputs(m, run.desc, run.ex)
        raw, why = engine.native_run(k, inputs, rdir)
        info = dict(inputs=engine.show_inputs(inputs), why=why)
        if raw is None and ('exit -11' in why or 'exit -7' in why):
            info['native'] = 'faulted (%s): misaligned access through an aligned instruction' % why
            return True, info
        return None, info
    return fn


def obligations(run):
    if run.k.op == 'insert':
        from . import c05
        return c05.obligations(run)
    k = run.k; op = k.op
    w = TYPES[k.ty][1]; n = lanes(k.ty, k.arch); sz = w // 8
    D = run.desc
    obs = []
    if op.startswith('load'):
        for i in range(n):
            obs.append(Oblig(op, True, (lambda i: lambda res: tobv(bits_of(res.val[i]), w) == elem(run, 'a', i, sz))(i), lane=i))
        obs += access_obligs(run, k, 'a', n * sz, 'rw')
    elif op.startswith('store'):
        x = D[1]['lanes']
        for i in range(n):
            for q in range(sz):
                obs.append(Oblig(op, True, (lambda i, q: lambda res: tobv(res.byte('a', i * sz + q), 8) == z3.Extract(8 * q + 7, 8 * q, x[i]))(i, q), lane=i * sz + q, kind='mem'))
        # nothing around the object changes (window of 64 bytes on each side)
        for off in list(range(-64, 0)) + list(range(n * sz, n * sz + 64)):
            obs.append(Oblig(op + '.outside', True, (lambda off: lambda res: tobv(res.byte('a', off), 8) == run.mem0('a', off))(off), lane=off, kind='mem'))
        obs += access_obligs(run, k, 'a', n * sz, 'rw')
    elif op == 'bool_load':
        for i in range(n):
            obs.append(Oblig(op, True, (lambda i: lambda res: mask_lane_is(res.val[i], run.mem0('a', i) != 0, w))(i), lane=i))
        obs += access_obligs(run, k, 'a', n, 'rw')
    elif op == 'bool_store':
        bs = D[1]['bools']
        for i in range(n):
            obs.append(Oblig(op, True, (lambda i: lambda res: tobv(res.byte('a', i), 8) == z3.If(bs[i], z3.BitVecVal(1, 8), z3.BitVecVal(0, 8)))(i), lane=i, kind='mem'))
        for off in list(range(-64, 0)) + list(range(n, n + 64)):
            obs.append(Oblig(op + '.outside', True, (lambda off: lambda res: tobv(res.byte('a', off), 8) == run.mem0('a', off))(off), lane=off, kind='mem'))
        obs += access_obligs(run, k, 'a', n, 'rw')
    elif op in ('gather', 'scatter'):
        idx = D[-1]['lanes']
        base = D[0]['base']; ex = run.ex; rid = D[0]['ptr'].rid
        offs = [z3.SignExt(64 - w, x) * z3.BitVecVal(sz, 64) if w < 64 else x * z3.BitVecVal(sz, 64) for x in idx]
        if op == 'gather':
            for i in range(n):
                def post(res, i=i):
                    bs = [z3.Select(ex.ext0, base + offs[i] + q) for q in reversed(range(sz))]
                    return tobv(bits_of(res.val[i]), w) == (z3.Concat(*bs) if sz > 1 else bs[0])
                obs.append(Oblig(op, True, post, lane=i))
        else:
            x = D[1]['lanes']
            distinct = z3.Distinct(*idx) if n > 1 else True
            for i in range(n):
                def post(res, i=i):
                    bs = [tobv(res.byte('a', offs[i] + q), 8) for q in reversed(range(sz))]
                    return (z3.Concat(*bs) if sz > 1 else bs[0]) == x[i]
                obs.append(Oblig(op, distinct, post, lane=i, kind='mem', replay_fn=lambda m, run, rdir: (None, {'why': 'scatter value replay not implemented'})))
        # address set: every access is one whole indexed element
        acc = [a for a in ex.accesses if a[5] == rid]
        for j, (pc, addr, nb, al, rw, _, off) in enumerate(acc):
            o = addr - base
            pre = z3.And(*pc) if pc else True
            obs.append(Oblig('addrset.%s%d' % (rw, j), pre, (lambda o, nb: lambda res: z3.Or(*[z3.And(z3.UGE(o - f, 0), z3.ULE(o - f + nb, sz)) for f in offs]))(o, nb), kind='footprint',
                             replay_fn=lambda m, run, rdir: (None, {'why': 'stray gather/scatter access is not observable natively'})))
            if al and al > sz:
                obs.append(Oblig('align%d.%s%d' % (al, rw, j), pre, (lambda: lambda res: z3.BoolVal(False))(), kind='align', replay_fn=align_replay()))
        # every indexed element is accessed
        def cover(res):
            cs = []
            for f in offs:
                hit = []
                for (pc, addr, nb, al, rw, _, off) in acc:
                    c = (addr - base) == f if nb == sz else z3.BoolVal(False)
                    hit.append(z3.And(*(pc + [c])) if pc else c)
                cs.append(z3.Or(*hit) if hit else z3.BoolVal(False))
            return z3.And(*cs)
        obs.append(Oblig('addrset.cover', True, cover, kind='footprint', replay_fn=lambda m, run, rdir: (None, {'why': 'not observable'})))
    elif op in ('broadcast', 'broadcast2'):
        v = D[0]['sym']
        for i in range(n):
            obs.append(Oblig(op, True, (lambda i: lambda res: tobv(bits_of(res[i]), w) == v)(i), lane=i))
    elif op == 'ctor_list':
        for i in range(n):
            obs.append(Oblig(op, True, (lambda i: lambda res: tobv(bits_of(res.val[i]), w) == elem(run, 'a', i, sz))(i), lane=i))
    elif op == 'get':
        x = D[0]['lanes']; i_ = D[1]['sym']
        want = z3.BitVecVal(0, w)
        for j in reversed(range(n)): want = z3.If(i_ == j, x[j], want)
        obs.append(Oblig(op, True, lambda res: tobv(bits_of(res), w) == want))
    else:
        raise KeyError(op)
    return obs
