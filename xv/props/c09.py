"""C09 reductions: every lane exactly once.

integers : reduce_add == modular sum of all lanes;  reduce_max/min == max/min of the lanes (exact, all values)
float    : reduce_add / haddp in *token mode*: the FP data are opaque tokens and fadd is + in Z/2^w, so the result term equals the sum of
           all lane tokens iff the kernel adds every lane exactly once in some association order (the (n-1)-roundings clause follows
           from that shape).  reduce_max/min (no NaN): result >= / <= every lane and equal to some lane, exact IEEE compares.
reduce(f): f is an external function, modelled as lane-wise + on w-bit tokens (an associative-commutative representative): result ==
           sum of all lanes iff the swizzle-halving tree combines every lane exactly once."""
import z3
from .. import kernels as K, gen
from ..engine import Oblig
from ..gen import TYPES, lanes
from ..symex import F, mask, extract, concat_le, Unsupported
from .c03 import tobv, fpv

BOUNDS = ('full-width registers, all lane values; n = 2..64 lanes; 10 element types x 23 x86 archs (body de-duplication). '
          'FP sums decided in token abstraction (association order free), FP max/min under "no NaN present" as the property states.')
ASSUMPTIONS = ['clang-14 -O1 lowering is correct', 'x86 intrinsic models',
               'token abstraction for FP sums: fadd is interpreted as + on opaque w-bit tokens (sound for "each lane exactly once, any association order")',
               'reduce(f, x): f modelled by lane-wise modular + (associative and commutative)']
MIN_COVERED = {'quick': 700, 'thorough': 800}


def kernels(tier, seed):
    archs = gen.ALL_ARCHS + (['emu128', 'emu256'] if tier == 'thorough' else [])
    return K.c09(archs)


def exec_opts(k):
    w = TYPES[k.ty][1]
    o = {}
    if TYPES[k.ty][3] == 'fp' and k.op in ('reduce_add', 'haddp', 'reduce'):
        o['fpmode'] = 'token'
    if k.op == 'reduce':
        def stub(ex, st, ins, name, args):
            if 'xv_f' not in name: return NotImplemented
            aty = ins.ops[0][0]
            a, na = ex.to_bits(aty, args[0]); b, nb = ex.to_bits(aty, args[1])
            parts = []
            for i in range(na // w):
                x = extract((i + 1) * w - 1, i * w, a); y = extract((i + 1) * w - 1, i * w, b)
                parts.append((tobv(x, w) + tobv(y, w), w))
            return ex.from_bits(ins.ty, concat_le(parts))
        o['stubs'] = {'*': stub}
    return o


def token_replay(k, op, lane):
    """native confirmation for token-mode obligations: the solver's token values are not floats; the witness used instead is the
    exactly-summable assignment lane i = 2^(i mod 24) (row r of haddp shifted by r), whose correct sum is known exactly"""
    import struct
    from .. import engine
    w = TYPES[k.ty][1]; n = lanes(k.ty, k.arch)
    pk = (lambda v: struct.unpack('<I', struct.pack('<f', v))[0]) if w == 32 else (lambda v: struct.unpack('<Q', struct.pack('<d', v))[0])
    up = (lambda b: struct.unpack('<f', b)[0]) if w == 32 else (lambda b: struct.unpack('<d', b)[0])

    def fn(m, run, rdir):
        if op == 'haddp':
            vals = [[float(2 ** ((r + c) % 24)) for c in range(n)] for r in range(n)]
            by = {}
            for r in range(n):
                for c in range(n):
                    for q, b in enumerate(pk(vals[r][c]).to_bytes(w // 8, 'little')): by[(r * n + c) * (w // 8) + q] = b
            inputs = {'a': dict(base=4096, bytes=by)}
            raw, why = engine.native_run(k, inputs, rdir)
            info = dict(inputs='row r, column c = 2^((r+c) mod 24)', why=why)
            if raw is None: return None, info
            got = up(bytes(raw)[lane * (w // 8):(lane + 1) * (w // 8)]); want = sum(vals[lane])
        else:
            vals = [float(2 ** (i % 24)) for i in range(n)]
            inputs = {'a': [pk(v) for v in vals]}
            raw, why = engine.native_run(k, inputs, rdir)
            info = dict(inputs='lane i = 2^i', why=why)
            if raw is None: return None, info
            got = up(bytes(raw)[:w // 8]); want = sum(vals)
        info['native'] = 'got %r want %r' % (got, want)
        return got != want, info
    return fn


def bits_of(x):
    return x.bits() if isinstance(x, F) else x


def obligations(run):
    k = run.k; op = k.op
    w = TYPES[k.ty][1]; sg = TYPES[k.ty][2]; fp = TYPES[k.ty][3] == 'fp'
    n = lanes(k.ty, k.arch)
    D = run.desc
    obs = []
    if op in ('reduce_add', 'reduce'):
        ls = D[0]['lanes']
        want = ls[0]
        for x in ls[1:]: want = want + x
        obs.append(Oblig(op, True, lambda res: tobv(bits_of(res), w) == want, replay_fn=token_replay(k, op, 0) if fp else None))
    elif op in ('reduce_max', 'reduce_min'):
        ls = D[0]['lanes']
        R = lambda res: tobv(bits_of(res), w)
        if fp:
            fl = [fpv(x, w) for x in ls]
            pre = z3.And(*[z3.Not(z3.fpIsNaN(x)) for x in fl])
            ge = (lambda r, x: z3.fpGEQ(r, x)) if op == 'reduce_max' else (lambda r, x: z3.fpLEQ(r, x))
            for i in range(n):
                obs.append(Oblig(op + '.bound', pre, (lambda i: lambda res: ge(fpv(R(res), w), fl[i]))(i), lane=i))
            obs.append(Oblig(op + '.attained', pre, lambda res: z3.Or(*[fpv(R(res), w) == x for x in fl] + [z3.And(z3.fpIsZero(fpv(R(res), w)), z3.Or(*[z3.fpIsZero(x) for x in fl]))])))
        else:
            if sg: ge = (lambda a, b: a >= b) if op == 'reduce_max' else (lambda a, b: a <= b)
            else: ge = (lambda a, b: z3.UGE(a, b)) if op == 'reduce_max' else (lambda a, b: z3.ULE(a, b))
            for i in range(n):
                obs.append(Oblig(op + '.bound', True, (lambda i: lambda res: ge(R(res), ls[i]))(i), lane=i))
            obs.append(Oblig(op + '.attained', True, lambda res: z3.Or(*[R(res) == x for x in ls])))
    elif op == 'haddp':
        def tok(r, c):
            off = (r * n + c) * (w // 8)
            return z3.Concat(*[run.mem0('a', off + b) for b in reversed(range(w // 8))])
        for i in range(n):
            want = tok(i, 0)
            for c in range(1, n): want = want + tok(i, c)
            obs.append(Oblig(op, True, (lambda i, want: lambda res: tobv(bits_of(res.val[i]), w) == want)(i, want), lane=i, replay_fn=token_replay(k, 'haddp', i) if fp else None))
    else:
        raise KeyError(op)
    return obs
