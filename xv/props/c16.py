"""C16 complex batches (partial, as DESIGN section 5 C16 states).

exact      ==/!= (both components, IEEE compare), real/imag/conj/neg/proj bit-level, + and - component-wise (SMT FloatingPoint),
           isnan/isinf/isfinite, interleaved load/store (memory element i (re,im) <-> lane i of the real and imaginary registers,
           with access footprint and alignment obligations) on every architecture.
real-abs   *, /, fma/fms/fnma/fnms, norm and the complex (op) real forms: the kernel is executed with arithmetic as uninterpreted
           functions; the resulting term of each component is *interpreted over the reals* (fadd -> +, fmul -> x, fma -> a*b+c,
           fdiv -> /, sign-bit xor -> negation) and z3's nonlinear real arithmetic decides (a) that it equals the textbook polynomial /
           rational function for all real operands and (b) it contains no more roundings than the textbook evaluation.  This catches sign
           slips, swapped components and mixed-up operands; it is *not* an error bound: the few-ulp claim then rests on the standard
           rounding analysis of that expression shape (trusted lemma, stated in the evidence).
not decided: abs/arg/polar/exp/log/.../tan/tanh versus std::complex (no solver theory for the transcendental functions, see C10/C11)."""
import z3
from .. import kernels as K, gen, specs
from ..engine import Oblig
from ..gen import TYPES, lanes
from ..symex import F, mask
from .c03 import tobv, mask_lane_is
from .c04 import access_obligs, regbytes

BOUNDS = ('all operand bit patterns for the exact items; all real operand values for the algebraic identities (divisor modulus non-zero); every pointer / memory content for the '
          'interleaved loads and stores; arithmetic kernels on sse2, sse4_1, avx, fma3<avx2>, avx512f, avx512dq (the complex operators are architecture-independent source over the real kernels, '
          'which C02 covers on all 23); loads/stores on all 23 x86 archs. Outside: complex elementary functions; the numeric error of * / fma (trusted rounding lemma).')
ASSUMPTIONS = ['clang-14 -O1 lowering is correct', 'x86 intrinsic models', 'an expression built from k correctly rounded operations that equals the textbook formula over the reals has the textbook error bound (standard rounding analysis; not re-proved here)',
               'aligned complex loads/stores are called with pointers that are multiples of A::alignment()']
MIN_COVERED = {'quick': 600, 'thorough': 1000}
ARITH_ARCHS = ['sse2', 'sse4_1', 'avx', 'fma3_avx2', 'avx512f', 'avx512dq']
# textbook rounding counts per component: mul 3 (2 products + 1 sum), div 7 ... the kernel may use fewer (fused) but not more
MAXROUND = {'mul': 3, 'div': 7, 'fma': 5, 'fms': 5, 'fnma': 5, 'fnms': 5, 'norm': 3, 'mulr': 3, 'divr': 7, 'addr': 1, 'subr': 1}   # complex (op) real goes through the complex operator with a zero imaginary part


import struct, math
# arg(z) on the axes and on the branch cut (the sign of a zero imaginary part selects the side): exact evaluation on concrete operands,
# result within 2 ulp of the correctly rounded angle.  (re, im, expected angle)
ARG_POINTS = [(-2.0, 0.0, math.pi), (-2.0, -0.0, -math.pi), (2.0, 0.0, 0.0), (2.0, -0.0, -0.0), (0.0, 1.0, math.pi / 2), (0.0, -1.0, -math.pi / 2),
              (-1e30, -0.0, -math.pi), (-1e-30, -0.0, -math.pi), (-1e-30, 0.0, math.pi), (-0.0, -1.0, -math.pi / 2)]


def fbits(v, w):
    return struct.unpack('<I', struct.pack('<f', v))[0] if w == 32 else struct.unpack('<Q', struct.pack('<d', v))[0]


def kernels(tier, seed):
    ks = K.c16(ARITH_ARCHS if tier == 'quick' else gen.ALL_ARCHS, gen.ALL_ARCHS)
    for arch in ('sse2', 'fma3_avx2', 'avx512f'):
        for ty in gen.FTYPES:
            w = TYPES[ty][1]; n = lanes(ty, arch); ct = TYPES[ty][0]
            cb = 'xsimd::batch<std::complex<%s>,%s>' % (ct, gen.cpp_arch(arch))
            base = gen.Kernel('C16', 'arg', ty, arch, [('v', ty), ('v', ty)], ('v', ty), 'xsimd::arg(x)', pre='%s x(a, b);' % cb)
            for j, (re, im, ang) in enumerate(ARG_POINTS):
                ks.append(gen.Kernel('C16', 'arg', ty, arch, [('v', ty), ('v', ty)], ('v', ty), 'xsimd::arg(x)', variant='pt%d' % j, pre='%s x(a, b);' % cb,
                                     meta={'fname': base.name, 'concrete': {'a': [fbits(re, w)] * n, 'b': [fbits(im, w)] * n}, 'angle': ang, 'point': repr((re, im))}))
    return ks


ABSTRACT_OPS = set(MAXROUND)


def exec_opts(k):
    if k.op in ABSTRACT_OPS: return {'fpmode': 'abstract'}
    if k.op == 'arg': return {'fpmode': 'exact', 'max_steps': 2000000}
    return {}


def assume(run):
    k = run.k; out = []
    for d in run.desc:
        if d['kind'] == 'ptr':
            out.append(z3.ULE(d['base'], z3.BitVecVal((1 << 64) - 1 - 4096, 64)))
            if k.meta.get('aligned'): out.append(z3.URem(d['base'], z3.BitVecVal(regbytes(k), 64)) == 0)
    return out


def bits_of(x): return x.bits() if isinstance(x, F) else x


class NotAlgebraic(Exception):
    pass


def real_of(t, w, leaves, memo, ops):
    """interpret a bit-vector term produced in abstract mode as a real-valued expression; counts the rounding operations met in `ops`"""
    key = t.get_id()
    if key in memo: return memo[key]
    sb = 1 << (w - 1)
    r = None
    if z3.is_const(t) and t.decl().kind() == z3.Z3_OP_UNINTERPRETED:
        nm = t.decl().name()
        if nm not in leaves: leaves[nm] = z3.Real('R_' + nm)
        r = leaves[nm]
    elif z3.is_bv_value(t):
        v = z3.simplify(z3.fpToReal(z3.fpBVToFP(t, specs.FS(w))))
        r = v
    elif z3.is_app(t):
        d = t.decl(); kd = d.kind(); ch = t.children()
        if kd == z3.Z3_OP_UNINTERPRETED:
            nm = d.name()
            args = ch
            if nm.startswith(('fadd', 'fmul', 'fma')) and len(args) >= 2 and z3.is_app_of(args[0], z3.Z3_OP_ITE) and z3.is_app_of(args[1], z3.Z3_OP_ITE):
                c0, a0, b0 = args[0].children(); c1, a1, b1 = args[1].children()
                if c0.eq(c1) and a0.eq(b1) and b0.eq(a1):
                    args = [a0, b0] + list(args[2:])     # the two operands in either order (commutative canonical form)
            rs = [real_of(a, w, leaves, memo, ops) for a in args]
            ops.add(key)
            if nm.startswith('fadd'): r = rs[0] + rs[1]
            elif nm.startswith('fmul'): r = rs[0] * rs[1]
            elif nm.startswith('fdiv'): r = rs[0] / rs[1]
            elif nm.startswith('fma'): r = rs[0] * rs[1] + rs[2]
            else: raise NotAlgebraic(nm)
        elif kd == z3.Z3_OP_BXOR and len(ch) == 2:
            c, x = (ch[0], ch[1]) if z3.is_bv_value(ch[0]) else (ch[1], ch[0])
            if z3.is_bv_value(c) and c.as_long() == sb: r = -real_of(x, w, leaves, memo, ops)
        elif kd == z3.Z3_OP_CONCAT and len(ch) == 2 and z3.is_app_of(ch[0], z3.Z3_OP_BNOT) and z3.is_app_of(ch[1], z3.Z3_OP_EXTRACT):
            # the simplifier's spelling of x ^ signbit: concat(~x[w-1], x[w-2:0])
            hi = ch[0].children()[0]; lo = ch[1]
            if z3.is_app_of(hi, z3.Z3_OP_EXTRACT) and hi.params() == [w - 1, w - 1] and lo.params() == [w - 2, 0] and hi.children()[0].eq(lo.children()[0]):
                r = -real_of(lo.children()[0], w, leaves, memo, ops)
        elif kd == z3.Z3_OP_BOR and len(ch) == 2:
            # sign flip written as (x & 0x7f..) | (~x & 0x80..) does not occur; give up
            pass
        elif kd == z3.Z3_OP_ITE:
            c, a, b = ch
            if a.eq(b): r = real_of(a, w, leaves, memo, ops)
    if r is None: raise NotAlgebraic(str(t)[:200])
    memo[key] = r
    return r


def textbook(op, comp, R):
    """R: list of real operands (a,b | c,d | e,f) -> the textbook component"""
    a, b = R[0], R[1]
    if op == 'norm': return a * a + b * b
    if op in ('mulr', 'divr', 'addr', 'subr'):
        c = R[2]
        if op == 'mulr': return (a * c) if comp == 'real' else (b * c)
        if op == 'divr': return (a / c) if comp == 'real' else (b / c)
        if op == 'addr': return (a + c) if comp == 'real' else b
        if op == 'subr': return (a - c) if comp == 'real' else b
    c, d = R[2], R[3]
    pr = a * c - b * d; pi = a * d + b * c
    if op == 'mul': return pr if comp == 'real' else pi
    if op == 'div':
        e = c * c + d * d
        return ((a * c + b * d) / e) if comp == 'real' else ((b * c - a * d) / e)
    e, f = R[4], R[5]
    if op == 'fma': return (pr + e) if comp == 'real' else (pi + f)
    if op == 'fms': return (pr - e) if comp == 'real' else (pi - f)
    if op == 'fnma': return (-pr + e) if comp == 'real' else (-pi + f)
    if op == 'fnms': return (-pr - e) if comp == 'real' else (-pi - f)
    raise KeyError(op)


def algebraic_obligs(run):
    k = run.k; op = k.op; w = TYPES[k.ty][1]; n = lanes(k.ty, k.arch); comp = k.meta['comp'] or 'real'
    obs = []
    for i in range(n):
        def post(res, i=i):
            t = z3.simplify(tobv(bits_of(res[i]), w))
            leaves = {}; memo = {}; ops = set()
            try:
                val = real_of(t, w, leaves, memo, ops)
            except NotAlgebraic as e:
                return z3.BoolVal(False)
            R = []
            for d in run.desc:
                nm = d['lanes'][i].decl().name()
                R.append(leaves.get(nm, z3.Real('R_' + nm)))
            want = textbook(op, comp, R)
            pre = []
            if op == 'div': pre.append(R[2] * R[2] + R[3] * R[3] != 0)
            if op == 'divr': pre.append(R[2] != 0)
            s = z3.Solver(); s.set('timeout', 60000)
            s.add(*pre); s.add(val != want)
            r = s.check()
            ok = (r == z3.unsat) and len(ops) <= MAXROUND[op]
            run.ex.__dict__.setdefault('alg_notes', []).append((i, str(r), len(ops)))
            return z3.BoolVal(bool(ok))
        obs.append(Oblig('%s.%s algebraic identity over R + rounding count' % (op, comp), True, post, lane=i, kind='algebraic', replay_fn=alg_replay(i)))
    return obs


FRIENDLY = [3.0, 5.0, 2.0, -2.0, 13.0, 17.0]      # every textbook result on these operands is exactly representable (c*c+d*d = 8)


def alg_replay(i):
    """native confirmation of an algebraic mismatch: run the wrapper on operands whose textbook result is exact and compare"""
    from fractions import Fraction
    import struct
    from .. import engine
    def fn(m, run, rdir):
        k = run.k; w = TYPES[k.ty][1]; n = lanes(k.ty, k.arch); comp = k.meta['comp'] or 'real'
        pk = (lambda v: struct.unpack('<I', struct.pack('<f', v))[0]) if w == 32 else (lambda v: struct.unpack('<Q', struct.pack('<d', v))[0])
        up = (lambda b: struct.unpack('<f', struct.pack('<I', b))[0]) if w == 32 else (lambda b: struct.unpack('<d', struct.pack('<Q', b))[0])
        vals = FRIENDLY[:len(run.desc)]
        inputs = {d['name']: [pk(v)] * n for d, v in zip(run.desc, vals)}
        raw, why = engine.native_run(k, inputs, rdir)
        info = dict(inputs={d['name']: v for d, v in zip(run.desc, vals)}, why=why)
        if raw is None: return None, info
        got = up(int.from_bytes(raw[i * w // 8:(i + 1) * w // 8], 'little'))
        want = textbook(k.op, comp, [Fraction(v) for v in vals])
        info['native'] = 'lane %d = %r, textbook %s' % (i, got, want)
        if got != got or Fraction(got) != want: return True, info
        info['why'] = 'the extracted term differs from the textbook formula or has too many roundings, but the native result on the probe operands is the textbook value'
        return None, info
    return fn


def celem(run, arg, idx, sz):
    bs = [run.mem0(arg, idx * sz + q) for q in reversed(range(sz))]
    return z3.Concat(*bs) if sz > 1 else bs[0]


def obligations(run):
    k = run.k; op = k.op; w = TYPES[k.ty][1]; n = lanes(k.ty, k.arch); sz = w // 8
    D = run.desc
    comp = k.meta.get('comp')
    if op in ABSTRACT_OPS: return algebraic_obligs(run)
    if op == 'arg':
        want = fbits(k.meta['angle'], w)
        obs = []
        for i in range(n):
            def post(res, i=i):
                r = tobv(bits_of(res[i]), w)
                if want & ((1 << (w - 1)) - 1) == 0: return r == want          # +-0: exact, sign included
                return z3.Or(*[r == want + d for d in (-2, -1, 0, 1, 2)])
            obs.append(Oblig('arg%s' % k.meta['point'], True, post, lane=i, kind='point'))
        return obs
    obs = []
    sb = z3.BitVecVal(1 << (w - 1), w)
    if op.startswith('cload'):
        for i in range(n):
            idx = 2 * i + (0 if comp == 'real' else 1)
            obs.append(Oblig(op, True, (lambda i, idx: lambda res: tobv(bits_of(res.val[i]), w) == celem(run, 'a', idx, sz))(i, idx), lane=i))
        obs += access_obligs(run, k, 'a', 2 * n * sz, 'rw')
        return obs
    if op.startswith('cstore'):
        re = D[1]['lanes']; im = D[2]['lanes']
        for i in range(n):
            for j, src in ((2 * i, re[i]), (2 * i + 1, im[i])):
                for q in range(sz):
                    obs.append(Oblig(op, True, (lambda j, q, src: lambda res: tobv(res.byte('a', j * sz + q), 8) == z3.Extract(8 * q + 7, 8 * q, src))(j, q, src), lane=j * sz + q, kind='mem'))
        tot = 2 * n * sz
        for off in list(range(-32, 0)) + list(range(tot, tot + 32)):
            obs.append(Oblig(op + '.outside', True, (lambda off: lambda res: tobv(res.byte('a', off), 8) == run.mem0('a', off))(off), lane=off, kind='mem'))
        obs += access_obligs(run, k, 'a', tot, 'rw')
        return obs
    for i in range(n):
        L = [d['lanes'][i] for d in D]
        ren = {x.decl().name(): r for x, r in zip(L, 'abcdef')}
        a, b = L[0], L[1]
        fa, fb = specs.fpv(a, w), specs.fpv(b, w)
        R = (lambda i: lambda res: tobv(bits_of(res[i]), w))(i)
        RFv = (lambda i: lambda res: specs.RF(res[i], w))(i)
        if op in ('add', 'sub'):
            c, d = L[2], L[3]
            x, y = (a, c) if comp == 'real' else (b, d)
            mk = z3.fpAdd if op == 'add' else z3.fpSub
            want = mk(specs.RNE, specs.fpv(x, w), specs.fpv(y, w))
            obs.append(Oblig(op + '.' + comp, True, (lambda want, RFv: lambda res: RFv(res) == want)(want, RFv), lane=i, rename=ren))
        elif op == 'neg':
            src = a if comp == 'real' else b
            obs.append(Oblig(op + '.' + comp, True, (lambda src, R: lambda res: R(res) == src ^ sb)(src, R), lane=i, rename=ren))
        elif op == 'conj':
            want = a if comp == 'real' else b ^ sb
            obs.append(Oblig(op + '.' + comp, True, (lambda want, R: lambda res: R(res) == want)(want, R), lane=i, rename=ren))
        elif op == 'proj':
            isinf = z3.Or(z3.fpIsInf(fa), z3.fpIsInf(fb))
            inf = z3.BitVecVal(0x7f800000 if w == 32 else 0x7ff0000000000000, w)
            want = z3.If(isinf, inf, a) if comp == 'real' else z3.If(isinf, b & sb, b)
            obs.append(Oblig(op + '.' + comp, True, (lambda want, R: lambda res: R(res) == want)(want, R), lane=i, rename=ren))
        elif op in ('real', 'imag'):
            want = a if op == 'real' else b
            obs.append(Oblig(op, True, (lambda want, R: lambda res: R(res) == want)(want, R), lane=i, rename=ren))
        elif op in ('eq', 'ne'):
            c, d = L[2], L[3]
            e = z3.And(z3.fpEQ(fa, specs.fpv(c, w)), z3.fpEQ(fb, specs.fpv(d, w)))
            truth = e if op == 'eq' else z3.Not(e)
            obs.append(Oblig(op, True, (lambda i, truth: lambda res: mask_lane_is(res[i], truth, w))(i, truth), lane=i, rename=ren))
        elif op in ('isnan', 'isinf', 'isfinite'):
            if op == 'isnan': truth = z3.Or(z3.fpIsNaN(fa), z3.fpIsNaN(fb))
            elif op == 'isinf': truth = z3.Or(z3.fpIsInf(fa), z3.fpIsInf(fb))
            else: truth = z3.And(*[z3.And(z3.Not(z3.fpIsNaN(v)), z3.Not(z3.fpIsInf(v))) for v in (fa, fb)])
            obs.append(Oblig(op, True, (lambda i, truth: lambda res: mask_lane_is(res[i], truth, w))(i, truth), lane=i, rename=ren))
        else:
            raise KeyError(op)
    return obs


def evidence_extra(ev, recs):
    ev['coverage']['not_decided'] = 'abs/arg/polar/exp/expm1/log/log2/log10/sqrt/sin/cos/sincos/sinh/cosh/pow/tan/tanh of complex batches versus std::complex (see DESIGN section 6)'
