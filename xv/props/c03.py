"""C03 comparisons / masks / select: exact per-lane Boolean semantics, canonical mask representation, mask()/from_mask inverse,
all/any/none/count, select bit patterns, bool-array / get / batch_bool_cast / 0-1 conversion round trips."""
import z3
from .. import kernels as K, gen, specs
from ..engine import Oblig
from ..gen import TYPES, lanes
from ..symex import mask, bv, is_c, F

BOUNDS = ('full-width registers; comparisons: all operand bit patterns incl. every NaN payload; mask operators: all 2^n canonical mask values '
          'of both operands at once (symbolic Booleans per lane); from_mask: every m < 2^n (symbolic), LUT loads with symbolic index and '
          'in-bounds obligation; 10 element types x 23 x86 archs (body de-duplication). Outside: non-canonical batch_bool inputs, emulated<N> (thorough).')
ASSUMPTIONS = ['clang-14 -O1 lowering is correct', 'x86 intrinsic models (validated against the host CPU by ./check validate)',
               'batch_bool inputs are canonical (all-ones / all-zeros lanes, k-register bit on AVX512); every producer checked here is shown to return canonical lanes',
               'bool arrays hold 0 or 1 (reading any other object representation as bool is undefined in C++)',
               'from_mask(m): m < 2^size; get(i): i < size']
MIN_COVERED = {'quick': 4000, 'thorough': 4500}


def kernels(tier, seed):
    archs = gen.ALL_ARCHS + (['emu128', 'emu256'] if tier == 'thorough' else [])
    return K.c03(archs)


def bits_of(x):
    return x.bits() if isinstance(x, F) else x


def tobv(x, w):
    if isinstance(x, bool): return z3.BitVecVal(int(x), w)
    if isinstance(x, int): return z3.BitVecVal(x, w)
    return x


def tobool(x):
    if isinstance(x, bool): return z3.BoolVal(x)
    if isinstance(x, int): return z3.BoolVal(bool(x))
    return x


def mask_lane_is(ml, truth, w):
    """ml: ('k', bit) | ('v', lane bits); truth: BoolRef -> BoolRef 'lane encodes truth canonically'"""
    kind, x = ml
    if kind == 'k':
        return tobv(x, 1) == z3.If(truth, z3.BitVecVal(1, 1), z3.BitVecVal(0, 1))
    return tobv(x, w) == z3.If(truth, z3.BitVecVal(mask(w), w), z3.BitVecVal(0, w))


def popcount_tree(parts, outw):
    """balanced adder tree with minimal widths (the linear 64-bit chain is much harder for the SAT back end)"""
    parts = list(parts)
    while len(parts) > 1:
        nxt = [z3.ZeroExt(1, parts[i]) + z3.ZeroExt(1, parts[i + 1]) for i in range(0, len(parts) - 1, 2)]
        if len(parts) % 2: nxt.append(z3.ZeroExt(1, parts[-1]))
        parts = nxt
    return z3.ZeroExt(outw - parts[0].size(), parts[0])


def fpv(b, w):
    return z3.fpBVToFP(b, z3.Float32() if w == 32 else z3.Float64())


def assume(run):
    k = run.k
    out = []
    n = lanes(k.ty, k.arch)
    for d in run.desc:
        if k.op == 'from_mask' and d['kind'] == 'z':
            if n < 64: out.append(z3.ULT(d['sym'], z3.BitVecVal(1 << n, 64)))
        if k.op == 'mget' and d['kind'] == 'z':
            out.append(z3.ULT(d['sym'], z3.BitVecVal(n, 64)))
        if k.op == 'bool_load' and d['kind'] == 'ptr':
            for i in range(n):
                out.append(z3.ULE(z3.Select(run.ex.ext0, d['base'] + i), z3.BitVecVal(1, 8)))
    return out


CMP = ('eq', 'ne', 'lt', 'le', 'gt', 'ge')
MOPS = {'mand': lambda a, b: z3.And(a, b), 'mor': lambda a, b: z3.Or(a, b), 'mxor': lambda a, b: z3.Xor(a, b),
        'mnot': lambda a: z3.Not(a), 'mlnot': lambda a: z3.Not(a), 'meq': lambda a, b: a == b, 'mne': lambda a, b: z3.Xor(a, b),
        'mandnot': lambda a, b: z3.And(a, z3.Not(b)), 'mand2': lambda a, b: z3.And(a, b), 'mor2': lambda a, b: z3.Or(a, b)}


def obligations(run):
    k = run.k; op = k.op
    w = TYPES[k.ty][1]; sg = TYPES[k.ty][2]; fp = TYPES[k.ty][3] == 'fp'
    n = lanes(k.ty, k.arch)
    D = run.desc
    obs = []

    def ren(i, *ds):
        r = {}
        for d, role in zip(ds, 'abc'):
            if d['kind'] == 'v': r[d['lanes'][i].decl().name()] = role
            elif d['kind'] == 'm': r[d['bools'][i].decl().name()] = role
        return r

    if op in CMP:
        for i in range(n):
            a, b = D[0]['lanes'][i], D[1]['lanes'][i]
            truth = specs.fp_cmp(op, fpv(a, w), fpv(b, w)) if fp else specs.int_cmp(op, sg, a, b)
            obs.append(Oblig(op, True, (lambda i, truth: lambda res: mask_lane_is(res[i], truth, w))(i, truth), lane=i, rename=ren(i, D[0], D[1])))
    elif op in MOPS:
        for i in range(n):
            args = [d['bools'][i] for d in D]
            truth = MOPS[op](*args)
            obs.append(Oblig(op, True, (lambda i, truth: lambda res: mask_lane_is(res[i], truth, w))(i, truth), lane=i, rename=ren(i, *D)))
    elif op == 'mcast':
        w2 = TYPES[k.ret[1]][1]
        for i in range(n):
            obs.append(Oblig(op, True, (lambda i: lambda res: mask_lane_is(res[i], D[0]['bools'][i], w2))(i), lane=i, rename=ren(i, D[0])))
    elif op in ('bool_rt', 'bool_rt_al'):
        for i in range(n):
            obs.append(Oblig(op, True, (lambda i: lambda res: mask_lane_is(res[i], D[0]['bools'][i], w))(i), lane=i, rename=ren(i, D[0])))
    elif op == 'mask':
        bs = D[0]['bools']
        want = z3.BitVecVal(0, 64)
        for i, b in enumerate(bs): want = want | z3.If(b, z3.BitVecVal(1 << i, 64), z3.BitVecVal(0, 64))
        obs.append(Oblig(op, True, lambda res: tobv(res, 64) == want))
    elif op == 'from_mask':
        m = D[0]['sym']
        for i in range(n):
            truth = z3.Extract(i, i, m) == 1
            obs.append(Oblig(op, True, (lambda i, truth: lambda res: mask_lane_is(res[i], truth, w))(i, truth), lane=i))
    elif op in ('all', 'any', 'none'):
        bs = D[0]['bools']
        want = {'all': z3.And(*bs), 'any': z3.Or(*bs), 'none': z3.Not(z3.Or(*bs))}[op]
        obs.append(Oblig(op, True, lambda res: tobool(res) == want))
    elif op == 'count':
        bs = D[0]['bools']
        want = popcount_tree([z3.If(b, z3.BitVecVal(1, 1), z3.BitVecVal(0, 1)) for b in bs], 64)
        obs.append(Oblig(op, True, lambda res: tobv(res, 64) == want))
    elif op == 'select':
        for i in range(n):
            c = D[0]['bools'][i]; a = D[1]['lanes'][i]; b = D[2]['lanes'][i]
            want = z3.If(c, a, b)
            obs.append(Oblig(op, True, (lambda i, want: lambda res: tobv(bits_of(res[i]), w) == want)(i, want), lane=i, rename=ren(i, *D)))
    elif op == 'mget':
        bs = D[0]['bools']; idx = D[1]['sym']
        want = z3.BoolVal(False)
        for i in reversed(range(n)): want = z3.If(idx == i, bs[i], want)
        obs.append(Oblig(op, True, lambda res: tobool(res) == want))
    elif op == 'to01':
        one = (0x3f800000 if w == 32 else 0x3ff0000000000000) if fp else 1
        for i in range(n):
            want = z3.If(D[0]['bools'][i], z3.BitVecVal(one, w), z3.BitVecVal(0, w))
            obs.append(Oblig(op, True, (lambda i, want: lambda res: tobv(bits_of(res[i]), w) == want)(i, want), lane=i, rename=ren(i, D[0])))
    elif op == 'bool_load':
        for i in range(n):
            truth = run.mem0('a', i) != 0
            obs.append(Oblig(op, True, (lambda i, truth: lambda res: mask_lane_is(res.val[i], truth, w))(i, truth), lane=i))
    elif op == 'bool_store':
        bs = D[1]['bools']
        for i in range(n):
            want = z3.If(bs[i], z3.BitVecVal(1, 8), z3.BitVecVal(0, 8))
            obs.append(Oblig(op, True, (lambda i, want: lambda res: tobv(res.byte('a', i), 8) == want)(i, want), lane=i, kind='mem'))
    else:
        raise KeyError(op)
    return obs
