"""C05 data movement = pure lane permutations with the documented index map (bit-exact lane contents or zero fill).

Run-time index batches, extract_pair's index and compress/expand masks are fully symbolic (all index vectors / all 2^n masks at once).
Compile-time masks, slide/rotate counts and insert positions are programs: a bounded family of instantiations per (type, arch)
(kernels.swizzle_masks), each proved for all data."""
import os, random
import z3
from .. import kernels as K, gen
from ..engine import Oblig, region
from ..gen import TYPES, lanes
from ..symex import F, mask
from .c03 import tobv

BOUNDS = ('all data bit patterns; run-time index vectors: every vector with entries < n; extract_pair: every i < n; compress/expand: every mask; '
          '(masks of batches with more than 16 lanes: symbolic inside the first and the last aligned 16-lane window with an all-0 background (quick; every window: thorough) / all-0 and all-1 backgrounds (thorough); thorough: fully symbolic up to 32 lanes); compile-time patterns: n=2 all, n=4 structured + random (thorough: all 256), n>=8 identity, reverse, broadcasts, rotations, pair/half swaps, '
          'lo/hi duplication, zip/unzip, in-quarter reverse, cross-lane and half-mixing patterns + R seeded random masks (R=8 quick / 48 thorough), '
          'same for two-input shuffles; slide byte counts / rotate counts / insert positions: all (n<=8 or thorough) or a boundary subset. '
          'quick tier, batches of more than 16 lanes: extract_pair / compress / expand are proved for the result lanes at the register and 128-bit boundaries + 6 seeded lanes (all lanes: thorough). '
          'Outside: compile-time masks not in the family.')
ASSUMPTIONS = ['clang-14 -O1 lowering is correct', 'x86 intrinsic models', 'run-time indices < size, extract_pair index < size (asserted by the library)',
               'batch_bool masks canonical']
VAL_BUDGET = 6      # seconds of translator validation per body (instantiating the 32/64-lane compress / expand / extract_pair formulas is slow)
MIN_COVERED = {'quick': 2500, 'thorough': 20000}
QUICK_ARCHS = ['sse2', 'ssse3', 'sse4_1', 'avx', 'avx2', 'avx512f', 'avx512bw', 'avx512vbmi', 'avx512vbmi2']


def kernels(tier, seed):
    # quick: one architecture per distinct data-movement kernel file (the others inherit these bodies); thorough: all 23 + emulated
    archs = QUICK_ARCHS if tier == 'quick' else gen.ALL_ARCHS + ['emu128', 'emu256']
    return K.c05(archs, tier, seed)


def job_priority(k):
    return lanes(k.ty, k.arch) if k.op in ('extract_pair', 'compress', 'expand', 'transpose', 'swizzle_dyn') else 0


def exec_opts(k):
    return {'max_unwind': 140}


def assume(run):
    k = run.k; n = lanes(k.ty, k.arch); out = []
    if k.op == 'swizzle_dyn':
        for x in run.desc[1]['lanes']: out.append(z3.ULT(x, n))
    if k.op == 'extract_pair':
        out.append(z3.ULT(run.desc[2]['sym'], n))
    if k.op in ('compress', 'expand') and 'window' in k.meta:
        lo, hi = k.meta['window']
        for i, b in enumerate(run.desc[1]['bools']):
            if not (lo <= i < hi): out.append(b if k.meta['bg'] else z3.Not(b))
    return out


def bits_of(x):
    return x.bits() if isinstance(x, F) else x


def pick(vals, idx, n, w, dflt=None):
    """vals[idx] for a symbolic idx (BV) as an ite chain"""
    r = dflt if dflt is not None else z3.BitVecVal(0, w)
    for j in reversed(range(n)):
        r = z3.If(idx == j, vals[j], r)
    return r


def obligations(run):
    k = run.k; op = k.op
    w = TYPES[k.ty][1]; n = lanes(k.ty, k.arch)
    D = run.desc
    want = [None] * n
    pre = True
    zero = z3.BitVecVal(0, w)
    if op == 'swizzle_dyn':
        x = D[0]['lanes']; idx = D[1]['lanes']
        want = [pick(x, idx[i], n, w) for i in range(n)]
    elif op == 'swizzle':
        x = D[0]['lanes']; m = k.meta['mask']; want = [x[m[i]] for i in range(n)]
    elif op == 'shuffle':
        x = D[0]['lanes']; y = D[1]['lanes']; m = k.meta['mask']
        want = [x[m[i]] if m[i] < n else y[m[i] - n] for i in range(n)]
    elif op in ('zip_lo', 'zip_hi'):
        x = D[0]['lanes']; y = D[1]['lanes']; off = 0 if op == 'zip_lo' else n // 2
        want = [(x if i % 2 == 0 else y)[off + i // 2] for i in range(n)]
    elif op == 'extract_pair':
        x = D[0]['lanes']; y = D[1]['lanes']; i_ = D[2]['sym']
        cat = list(y) + list(x)      # window [y[i..n-1], x[0..i-1]] = cat[i .. i+n-1]
        want = [pick(cat, i_ + j, 2 * n, w) for j in range(n)]
    elif op in ('rotate_left', 'rotate_right'):
        x = D[0]['lanes']; N = k.meta['N']
        want = [x[(i + N) % n] if op == 'rotate_left' else x[(i - N) % n] for i in range(n)]
    elif op == 'insert':
        x = D[0]['lanes']; I = k.meta['I']
        want = [x[i] if i != I else D[1]['sym'] for i in range(n)]
    elif op in ('slide_left', 'slide_right'):
        x = D[0]['lanes']; N = k.meta['N']; nb = n * w // 8
        whole = z3.Concat(*reversed(x)) if n > 1 else x[0]
        if N >= nb: sh = z3.BitVecVal(0, n * w)
        elif op == 'slide_left': sh = whole << (8 * N)
        else: sh = z3.LShR(whole, 8 * N)
        want = [z3.Extract((i + 1) * w - 1, i * w, sh) for i in range(n)]
    elif op in ('compress', 'expand'):
        x = D[0]['lanes']; b = D[1]['bools']
        cw = 8
        rank = []   # number of true lanes below i
        acc = z3.BitVecVal(0, cw)
        for i in range(n):
            rank.append(acc); acc = acc + z3.If(b[i], z3.BitVecVal(1, cw), z3.BitVecVal(0, cw))
        total = acc
        if op == 'expand':
            want = [z3.If(b[i], pick(x, rank[i], n, w), zero) for i in range(n)]
        else:
            want = []
            for j in range(n):
                r = zero
                for i in reversed(range(n)):
                    r = z3.If(z3.And(b[i], rank[i] == j), x[i], r)
                want.append(r)
    elif op == 'transpose':
        obs = []
        B = w // 8
        for r in range(n):
            for c in range(n):
                srcb = [run.mem0('a', (c * n + r) * B + q) for q in reversed(range(B))]; src = z3.Concat(*srcb) if B > 1 else srcb[0]
                def post(res, r=r, c=c, src=src):
                    got = [tobv(res.byte('b', (r * n + c) * B + q), 8) for q in reversed(range(B))]
                    return (z3.Concat(*got) if B > 1 else got[0]) == src
                obs.append(Oblig(op, True, post, lane=r * n + c, kind='mem'))
        return obs
    else:
        raise KeyError(op)
    obs = []
    which = range(n)
    if os.environ.get('XV_TIER') == 'quick' and n > 16 and op in ('extract_pair', 'compress', 'expand'):
        # quick tier: result lanes at the register / 128-bit-lane boundaries + 6 seeded ones (every lane: thorough); each lane is still
        # proved for all data, all masks / all indices
        rng = random.Random('%s|%s' % (k.name, os.environ.get('VERIF_SEED') or 0))
        which = sorted(set([0, 1, n // 2 - 1, n // 2, n - 2, n - 1, 16 * 8 // w - 1, 16 * 8 // w] + [rng.randrange(n) for _ in range(6)]))
    for i in which:
        ra = [D[0]['lanes'][i]] if D and D[0]['kind'] == 'v' else None
        obs.append(Oblig(op, pre, (lambda i: lambda res: tobv(bits_of(res[i]), w) == want[i])(i), lane=i,
                         region_args=[D[2]['sym']] if op == 'extract_pair' else []))
    return obs
