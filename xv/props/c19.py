"""C19 compile-time constant batches denote the same lanes as their run-time counterparts.

Each constant pack is a separate program: a bounded family of instantiations per (type, arch) is generated (one-hot, all-but-one,
alternating, arange, reverse, seeded random packs, generator functors, operator combinations), lowered from the real headers, and
  * as_batch()/conversion/as_batch_bool() lanes, get(i) for *symbolic* i, mask() (n <= 32) are compared with the pack;
  * every compile-time operator is compared lane-wise with the scalar operation on the packs (constants on both sides after
    folding: the solver's work is degenerate there, said so);
  * APIs taking a constant are compared with the run-time form on *symbolic data*: select(batch_bool_constant, a, b) and
    select(as_batch_bool(), a, b) against ite(b_i, a_i, b_i); swizzle(x, constant) XOR swizzle(x, constant.as_batch()) == 0
    (shuffle / insert<I> / slide<N> / rotate<N> against their index-level definitions are C05's obligations, same machinery)."""
import z3
from .. import kernels as K, gen, specs
from ..engine import Oblig
from ..gen import TYPES, lanes
from ..symex import F, mask
from .c03 import tobv, tobool, mask_lane_is

BOUNDS = ('instantiation family per (type, arch): one-hot and all-but-one at every lane (n <= 8 or thorough; else boundary lanes), alternating, arange, reverse, R seeded random packs (R=3 quick / 12 thorough), '
          '5 generator functors, pairwise operator combinations; get(i): every i < size (symbolic); select / swizzle equivalence: all data bit patterns. '
          'quick: sse2, sse4_1, avx, avx2, avx512f, avx512bw; thorough: all 23 x86 archs. Outside: packs not in the family; floating-point value constants (need C++20).')
ASSUMPTIONS = ['clang-14 -O1 lowering is correct (constant folding of the instantiated templates included)', 'x86 intrinsic models', 'get(i): i < size']
MIN_COVERED = {'quick': 3000, 'thorough': 12000}
QUICK_ARCHS = ['sse2', 'sse4_1', 'avx', 'avx2', 'avx512f', 'avx512bw']


def kernels(tier, seed):
    return K.c19(QUICK_ARCHS if tier == 'quick' else gen.ALL_ARCHS, tier, seed)


def assume(run):
    k = run.k
    if k.op in ('get', 'bool_get'):
        return [z3.ULT(run.desc[0]['sym'], lanes(k.ty, k.arch))]
    return []


def bits_of(x): return x.bits() if isinstance(x, F) else x


def cpp_int_op(op, a, b, w, sg):
    """the scalar operator on T (modular after the implicit conversion back to T; division truncates toward zero)"""
    M = 1 << w
    def wrap(v):
        v %= M
        return v - M if (sg and v >= M // 2) else v
    if op == 'add': return wrap(a + b)
    if op == 'sub': return wrap(a - b)
    if op == 'mul': return wrap(a * b)
    if op == 'and': return wrap((a % M) & (b % M))
    if op == 'or': return wrap((a % M) | (b % M))
    if op == 'xor': return wrap((a % M) ^ (b % M))
    if op == 'div':
        q = abs(a) // abs(b); return wrap(q if (a >= 0) == (b >= 0) else -q)
    if op == 'mod':
        r = abs(a) % abs(b); return wrap(r if a >= 0 else -r)
    if op == 'neg': return wrap(-a)
    if op == 'bnot': return wrap(~a)
    raise KeyError(op)


def obligations(run):
    k = run.k; op = k.op; ty = k.ty
    ct, w, sg, cls = TYPES[ty]; n = lanes(ty, k.arch)
    sg = sg and cls == 'int'
    M = 1 << w
    D = run.desc
    obs = []
    if op in ('as_batch', 'conv_batch', 'make_const', 'neg', 'bnot', 'add', 'sub', 'mul', 'and', 'or', 'xor', 'div', 'mod'):
        va = k.meta['vals']; vb = k.meta.get('vals2')
        if op in ('as_batch', 'conv_batch', 'make_const'): want = [v % M for v in va]
        elif vb is None: want = [cpp_int_op(op, v, None, w, sg) % M for v in va]
        else: want = [cpp_int_op(op, x, y, w, sg) % M for x, y in zip(va, vb)]
        for i in range(n):
            obs.append(Oblig(op, True, (lambda i: lambda res: tobv(bits_of(res[i]), w) == want[i])(i), lane=i))
    elif op == 'get':
        va = k.meta['vals']; i_ = D[0]['sym']
        want = z3.BitVecVal(0, w)
        for j in reversed(range(n)): want = z3.If(i_ == j, z3.BitVecVal(va[j] % M, w), want)
        obs.append(Oblig(op, True, lambda res: tobv(bits_of(res), w) == want))
    elif op in ('bool_as_batch', 'make_bool_const', 'bool_not', 'bool_bnot', 'bool_and', 'bool_or', 'bool_xor', 'bool_land', 'bool_lor'):
        ba = k.meta['bits']; bb = k.meta.get('bits2')
        if op in ('bool_as_batch', 'make_bool_const'): want = ba
        elif op in ('bool_not', 'bool_bnot'): want = [not b for b in ba]
        elif op in ('bool_and', 'bool_land'): want = [x and y for x, y in zip(ba, bb)]
        elif op in ('bool_or', 'bool_lor'): want = [x or y for x, y in zip(ba, bb)]
        else: want = [x != y for x, y in zip(ba, bb)]
        for i in range(n):
            obs.append(Oblig(op, True, (lambda i: lambda res: mask_lane_is(res[i], z3.BoolVal(bool(want[i])), w))(i), lane=i))
    elif op == 'bool_get':
        ba = k.meta['bits']; i_ = D[0]['sym']
        want = z3.BoolVal(False)
        for j in reversed(range(n)): want = z3.If(i_ == j, z3.BoolVal(bool(ba[j])), want)
        obs.append(Oblig(op, True, lambda res: tobool(res) == want))
    elif op == 'bool_mask':
        ba = k.meta['bits']
        val = sum((1 << i) for i, b in enumerate(ba) if b)
        obs.append(Oblig(op, True, lambda res: tobv(res, 64) == z3.BitVecVal(val, 64)))
    elif op in ('select_const', 'select_rt'):
        ba = k.meta['bits']; x = D[0]['lanes']; y = D[1]['lanes']
        for i in range(n):
            obs.append(Oblig(op, True, (lambda i: lambda res: tobv(bits_of(res[i]), w) == (x[i] if ba[i] else y[i]))(i), lane=i))
    elif op == 'swizzle_xor':
        for i in range(n):
            obs.append(Oblig(op, True, (lambda i: lambda res: tobv(bits_of(res[i]), w) == 0)(i), lane=i))
    else:
        raise KeyError(op)
    return obs
