"""C14 termination / bounded running time.

Every wrapper is executed symbolically with *unwinding assertions on all loops*: a loop whose exit test is concrete runs concretely (the
trip count is read off the execution and reported); a loop whose exit test depends on the data is unrolled with a solver feasibility
check at every iteration, and if K iterations are not enough the obligation "no input reaches iteration K" is emitted - it must come back
unsat.  A too-small K is therefore reported, never silently truncated.

 (a) element-wise / reduction / data-movement kernels of C01, C03, C07, C09 (representative architectures): only fixed-trip loops; evidence
     lists the maximal trip count.
 (b) every elementary function, float and double, in *mixed* FP mode: additions, subtractions, comparisons, selects, rounding and bit
     manipulation - everything loop control is made of - are exact IEEE; multiplications, divisions, fma and sqrt (which feed only the
     data path) are uninterpreted.  Lanes: two independent symbolic values (lane 0, and one value shared by the other lanes), so the
     whole-batch any()/all() interplay of different lanes is covered for pairs of values; bound K on every data-dependent loop.
Replay of a counterexample: the natively compiled wrapper is run under a watchdog; not returning within 10 s confirms the violation."""
import z3, os, subprocess
from .. import kernels as K, gen, specs, mathstubs, engine, harness
from ..engine import Oblig
from ..gen import TYPES, lanes, Kernel
from ..symex import F

K_UNWIND = 48
# per-function bounds (data-dependent loops exist only in the gamma functions; the clamps in the code give float tgamma <= 34+2, float lgamma <= 5, double lgamma <= 36, double tgamma <= 170)
K_BY_OP = {('tgamma', 'f32'): 40, ('lgamma', 'f32'): 10, ('lgamma', 'f64'): 40, ('tgamma', 'f64'): 44}
BOUNDS = ('(a) full-width registers, all inputs; (b) every float32 / float64 argument with two independent lane values (lane 0 and a value shared by all other lanes), '
          'K = %d iterations per data-dependent loop (unwinding assertion), arithmetic of the data path abstracted; double tgamma additionally restricted in the quick tier to |x| <= 40 or x >= 172 '
          '(the clamp region; thorough: all x with K = 180); variants sse2 and avx512f. Outside: __ieee754_rem_pio2 (stubbed; its loops are bounded by table sizes, not analysed here), '
          'more than two distinct lane values.' % K_UNWIND)
ASSUMPTIONS = ['clang-14 -O1 lowering is correct', 'x86 intrinsic models', 'MXCSR default rounding',
               'lane symmetry: the kernels treat all lanes alike (C13), so two distinct lane values exercise every whole-batch test any()/all() can distinguish for pairs',
               '__ieee754_rem_pio2 terminates (kept out of line by XSIMD_VERIF_HOOKS and stubbed)']
EXTRA_FLAGS = ['-DXSIMD_VERIF_HOOKS']
JOB_BUDGET = {'quick': 300, 'thorough': 7200}
from .c01 import LEMMAS
MIN_COVERED = {'quick': 400, 'thorough': 800}
TIMEOUT = {'quick': 60, 'thorough': 1200}
MATH_ARCHS = ['sse2', 'avx512f']
PLAIN_ARCHS = ['sse2', 'avx2', 'avx512f']


def kernels(tier, seed):
    ks = []
    math_archs = ['sse2'] if tier == 'quick' else MATH_ARCHS
    for k in K.c01(PLAIN_ARCHS) + K.c07(PLAIN_ARCHS) + [x for x in K.c09(PLAIN_ARCHS) if x.op != 'reduce'] + [x for x in K.c03(PLAIN_ARCHS) if x.op in ('count', 'from_mask', 'mask', 'select', 'all', 'any')]:
        k.meta = dict(k.meta); k.meta['plain'] = True
        ks.append(k)
    for arch in math_archs:
        for ty in gen.FTYPES:
            n = lanes(ty, arch)
            for f in K.MATH_UNARY:
                # two independent lane values for the functions with data-dependent loops, one shared value elsewhere
                lm = ([0] + [1] * (n - 1)) if f in ('tgamma', 'lgamma') else [0] * n
                ks.append(Kernel('C14', f, ty, arch, [('v', ty)], ('v', ty), 'xsimd::%s(a)' % f, meta={'lanemap': lm, 'math': True}))
            lm = [0] * n
            for f in K.MATH_BINARY:
                ks.append(Kernel('C14', f, ty, arch, [('v', ty), ('v', ty)], ('v', ty), 'xsimd::%s(a, b)' % f, meta={'lanemap': lm, 'math': True}))
            ks.append(Kernel('C14', 'sincos', ty, arch, [('v', ty)], ('v', ty), 'xsimd::sincos(a).first + xsimd::sincos(a).second', meta={'lanemap': lm, 'math': True}))
    return ks


def job_priority(k):
    if not k.meta.get('math'): return 0
    return 9 if k.op in ('tgamma', 'lgamma') else (5 if k.op in ('sin', 'cos', 'tan', 'sincos', 'pow') else 2)


def exec_opts(k):
    if k.meta.get('math'):
        kk = K_BY_OP.get((k.op, k.ty), 6)
        return {'fpmode': 'mixed', 'max_unwind': kk, 'stubs': mathstubs.STUBS, 'max_steps': 3000000, 'lazy_forks': True}
    return {'max_unwind': 140}


def assume(run):
    k = run.k; out = []
    if k.meta.get('plain'):
        w = TYPES[k.ty][1]
        if k.op in ('div', 'mod') and TYPES[k.ty][3] == 'int':
            # the operations' own preconditions (as in C01 / C13): non-zero divisors, no MIN / -1
            from ..symex import mask
            for a_, b_ in zip(run.desc[0]['lanes'], run.desc[1]['lanes']):
                out.append(b_ != 0)
                if TYPES[k.ty][2]: out.append(z3.Not(z3.And(a_ == (1 << (w - 1)), b_ == mask(w))))
        for d in run.desc:
            if d['kind'] == 's': out.append(z3.ULT(d['sym'], w))
            if d['kind'] == 'z' and k.op == 'from_mask': out.append(z3.ULT(d['sym'], 1 << lanes(k.ty, k.arch)) if lanes(k.ty, k.arch) < 64 else z3.BoolVal(True))
        return out
    if k.op == 'tgamma' and k.ty == 'f64' and os.environ.get('XV_TIER', 'quick') != 'thorough':
        for x in set(run.desc[0]['lanes']):
            f = specs.fpv(x, 64)
            out.append(z3.Or(z3.fpIsNaN(f), z3.fpLEQ(z3.fpAbs(f), specs.fpc(40.0, 64)), z3.fpGEQ(f, specs.fpc(172.0, 64))))
    return out


def obligations(run):
    # the executor's own obligations (unwinding assertions, in-bounds) are appended by the engine; the explicit one is reachability of the return
    return [Oblig('returns', True, lambda res: z3.BoolVal(not run.st.dead), kind='terminates')]


def internal_replay(kind, info):
    if kind != 'unwind': return None
    def fn(m, run, rdir):
        k = run.k
        hit = _CONFIRMED.get(k.name)
        if hit is not None:
            return True, dict(inputs=hit['inputs'], native='same kernel as %s: not re-run' % hit['where'], why='dup')
        # prefer a counterexample of huge magnitude (trip count proportional to the argument => the native call visibly hangs)
        pcs = [pc for kd, pc, cond, inf in run.ex.obligs if kd == kind and inf == info]
        if pcs:
            w = TYPES[k.ty][1]
            for big in (1e30 if w == 32 else 1e300, 1e12):
                sol = z3.Solver(); sol.set('timeout', 20000)
                sol.add(*run.ex.assume); sol.add(*run.ex.side); sol.add(*pcs[0])
                lanes_ = [x for d in run.desc if d['kind'] == 'v' for x in set(d['lanes'])]
                sol.add(z3.Or(*[z3.And(z3.fpGEQ(z3.fpAbs(specs.fpv(x, w)), specs.fpc(big, w)), z3.Not(z3.fpIsInf(specs.fpv(x, w)))) for x in lanes_]))
                if sol.check() == z3.sat:
                    m = sol.model(); break
        inputs = harness.model_inputs(m, run.desc, run.ex)
        os.makedirs(rdir, exist_ok=True)
        raw, why = native_watchdog(k, inputs, rdir)
        info_ = dict(inputs=engine.show_inputs(inputs), why=why)
        if why == 'timeout':
            info_['native'] = 'the call did not return within 10 s (every other input returns in microseconds)'
            _CONFIRMED[k.name] = dict(inputs=info_['inputs'], where=info)
            return True, info_
        return None, info_
    return fn


_CONFIRMED = {}


def native_watchdog(k, inputs, rdir):
    src = engine.replay_source(k, inputs)
    cpp = os.path.join(rdir, 'replay.cpp'); exe = os.path.join(rdir, 'replay.bin')
    open(cpp, 'w').write(src)
    flags = [f for f in gen.native_flags(k.arch) if not f.startswith('-I')] + ['-I' + gen.REPO + '/include']
    open(os.path.join(rdir, 'run.sh'), 'w').write('#!/bin/sh\n# exits 124 when the call does not return within 10 s\ncd "$(dirname "$0")" && %s %s replay.cpp -o replay.bin && timeout 10 ./replay.bin\n' % (gen.CLANG, ' '.join(flags)))
    os.chmod(os.path.join(rdir, 'run.sh'), 0o755)
    p = subprocess.run([gen.CLANG] + flags + [cpp, '-o', exe], capture_output=True, text=True)
    if p.returncode != 0: return None, 'compile failed: ' + p.stderr[:300]
    try:
        q = subprocess.run([exe], capture_output=True, text=True, timeout=10)
    except subprocess.TimeoutExpired:
        return None, 'timeout'
    return q.stdout, 'returned'


def evidence_extra(ev, recs):
    trips = {}
    for r in recs:
        trips[r['op']] = max(trips.get(r['op'], 0), r['max_trip'])
    ev['coverage']['max_symbolic_iterations_per_function'] = {k_: v for k_, v in sorted(trips.items()) if v}
    ev['coverage']['unwind_bound'] = K_UNWIND
