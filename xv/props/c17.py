"""C17 scalar overloads (xsimd_scalar.hpp) agree with the batch versions lane for lane.

(a) every listed scalar overload is symbolically executed and compared with the *same* spec object the batch kernels are held to
    (specs.int_spec / fp_spec / int_cmp / fp_cmp / fp_pred / fp_to_int_spec), for all operand values;
(b) spec-free differential: one wrapper computes the scalar overload and lane 0 of the batch operation on broadcast operands (real batch
    architectures), and the two outputs must be equal for all operands (bit-for-bit for integers; IEEE value incl. sign of zero, NaN ~ NaN,
    for floating point; min/max compared with fp.eq because C02 leaves the sign of a zero tie free).
sign / signnz / bitofsign are excluded as the property says; elementary functions are not decided (see C10/C11)."""
import z3
from .. import kernels as K, gen, specs
from ..engine import Oblig, region
from ..gen import TYPES, lanes
from ..symex import F, mask
from .c03 import tobv
from .c01 import count_operand

BOUNDS = ('all scalar operand bit patterns (non-NaN for floating point, as the property states); shift/rotate counts 0 <= s < bits; div/mod: divisor != 0 and not MIN/-1; '
          'clip: low <= hi; integer-exponent pow (differential only, FP multiplications abstracted as uninterpreted functions): |n| <= 64, unwinding assertion on the squaring loop; '
          'differential on sse2, sse4_1, avx, avx2, avx512f, avx512bw (quick) / all 23 x86 archs (thorough). Outside: elementary functions (C10/C11), complex scalars.')
ASSUMPTIONS = ['clang-14 -O1 lowering is correct', 'x86 intrinsic models', 'MXCSR default rounding', 'std::fma / std::nearbyint / std::trunc / std::fabs are the IEEE operations (llvm intrinsics)',
               'floating-point operands are not NaN (property statement)']
LEMMAS = [('narrow_div', op, w, 32) for op in ('sdiv', 'srem', 'udiv', 'urem') for w in (8, 16)]
MIN_COVERED = {'quick': 1500, 'thorough': 4000}
TIMEOUT = {'quick': 120, 'thorough': 900}
DIFF_QUICK = ['sse2', 'sse4_1', 'avx', 'avx2', 'avx512f', 'avx512bw']


def kernels(tier, seed):
    return K.c17(tier, DIFF_QUICK if tier == 'quick' else gen.ALL_ARCHS)


def exec_opts(k):
    if k.op == 'diff_pow_int': return {'fpmode': 'abstract', 'max_unwind': 12}
    return {}


def assume(run):
    k = run.k
    if k.op == 'diff_pow_int':
        n = run.desc[1]['sym']
        return [n >= -64, n <= 64]
    return []


def bits_of(x): return x.bits() if isinstance(x, F) else x


def nonnan(w, *xs):
    return z3.And(*[z3.Not(z3.fpIsNaN(specs.fpv(x, w))) for x in xs])


def spec_for(op, ty, ops):
    """-> (pre, post(result)) for the scalar overload `op` on element type ty"""
    ct, w, sg, cls = TYPES[ty]
    if op == 'select':
        c, a, b = ops
        return True, lambda r: specs.RB(r, w) == z3.If(c, a, b)
    if op == 'bitwise_cast':
        return True, lambda r: specs.RB(r, w) == ops[0]
    if cls == 'int':
        if op == 'clip':
            v, lo, hi = ops
            le = (lambda x, y: x <= y) if sg else z3.ULE
            gt = (lambda x, y: x > y) if sg else z3.UGT
            return le(lo, hi), lambda r: specs.RB(r, w) == z3.If(gt(lo, v), lo, z3.If(gt(v, hi), hi, v))
        if op in ('eq', 'ne', 'lt', 'le', 'gt', 'ge'):
            return True, lambda r: r == specs.int_cmp(op, sg, *ops)
        sops = list(ops); pre_extra = None
        if op in ('shl', 'shr', 'rotl', 'rotr'):
            pre_extra = z3.ULT(ops[1], w); sops[1] = count_operand(ops[1], w)
        pre, post = specs.int_spec(op, w, sg, *sops)
        if pre_extra is not None: pre = pre_extra if pre is specs.T else z3.And(pre_extra, pre)
        return pre, (lambda r: post(specs.RB(r, w)))
    # floating point
    fl = [x for x in ops if not z3.is_bool(x) and x.size() == w]
    nn = nonnan(w, *fl)
    if op in ('eq', 'ne', 'lt', 'le', 'gt', 'ge'):
        return nn, lambda r: r == specs.fp_cmp(op, specs.fpv(ops[0], w), specs.fpv(ops[1], w))
    if op in ('is_flint', 'is_even', 'is_odd'):
        return nn, lambda r: r == specs.fp_pred(op, w, ops[0])
    if op == 'nearbyint_as_int':
        pre, post = specs.fp_to_int_spec(op, w, ops[0])
        return pre, post
    if op == 'clip':
        v, lo, hi = [specs.fpv(x, w) for x in ops]
        want = z3.If(z3.fpGT(lo, v), lo, z3.If(z3.fpLT(hi, v), hi, v))
        return z3.And(nn, z3.fpLEQ(lo, hi)), lambda r: z3.fpEQ(specs.RF(r, w), want)
    if op in ('incr_if', 'decr_if'):
        x = specs.fpv(ops[0], w); one = specs.fpc(1.0, w)
        want = z3.If(ops[1], (z3.fpAdd if op == 'incr_if' else z3.fpSub)(specs.RNE, x, one), x)
        return nn, lambda r: z3.fpEQ(specs.RF(r, w), want)          # value; the sign of a zero result is compared in the differential
    if op in ('avg', 'avgr'):
        x, y = [specs.fpv(v, w) for v in ops]
        want = z3.fpDiv(specs.RNE, z3.fpAdd(specs.RNE, x, y), specs.fpc(2.0, w))
        return nn, lambda r: specs.RF(r, w) == want
    pre, post = specs.fp_spec(op, w, *ops)
    return (nn if pre is specs.T else z3.And(nn, pre)), post


def out_elem(res, arg, j, sz):
    bs = [tobv(res.byte(arg, j * sz + q), 8) for q in reversed(range(sz))]
    return z3.Concat(*bs) if sz > 1 else bs[0]


def obligations(run):
    k = run.k; op = k.op; ty = k.ty
    ct, w, sg, cls = TYPES[ty]
    D = run.desc
    ops = []; ren = {}
    for d, role in zip(D, 'abcd'):
        if d['kind'] in ('T', 's', 'b', 'z'):
            ops.append(d['sym']); ren[d['sym'].decl().name()] = role
    if not op.startswith('diff_'):
        pre, post = spec_for(op, ty, ops)
        rw = TYPES[k.ret[1]][1] if k.ret[0] == 'T' else None
        def p(res, post=post):
            if k.ret[0] == 'bool':
                r = res if not isinstance(res, bool) else z3.BoolVal(res)
                if z3.is_bv(r): r = (r == 1)
                return post(r)
            return post(res)
        return [Oblig(op, pre, p, region_args=ops)]
    base = k.meta['diff']
    parg = [d for d in D if d['kind'] == 'ptr'][0]['name']
    sz = w // 8
    if base == 'pow_int':
        pre = nonnan(w, ops[0])
    else:
        pre, _ = spec_for(base, ty, ops)
    def post(res):
        s_ = out_elem(res, parg, 0, sz); v_ = out_elem(res, parg, 1, sz)
        if cls == 'int' or base in ('and', 'or', 'xor', 'not', 'andnot', 'select'):
            return s_ == v_
        fs = specs.fpv(s_, w); fv = specs.fpv(v_, w)
        if base in ('min', 'max', 'clip', 'incr_if', 'decr_if'):     # value agreement; the sign of a zero tie / of x + 0 is not prescribed by C01/C02
            return z3.Or(z3.And(z3.fpIsNaN(fs), z3.fpIsNaN(fv)), z3.fpEQ(fs, fv))
        return fs == fv
    return [Oblig(op, pre, post, kind='mem', region_args=ops)]


@region('signed_rot_any')
def _r(k, *a):
    return z3.BoolVal(True)
