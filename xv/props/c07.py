"""C07 bitwise / shift / rotate: lane_i(kernel) == BV spec for all values x all counts in [0,bits)."""
import z3
from .. import kernels as K, gen, specs
from ..gen import TYPES
from .c01 import obligations, lane_operands, lane_bits   # same lane-wise obligation builder, C07 specs live in specs.int_spec

BOUNDS = ('full-width registers, all lane bit patterns, every scalar count 0<=n<bits (symbolic int) and independent symbolic per-lane counts; '
          'clang-14 -O1 IR; 23 x86 archs with body de-duplication. Outside: counts >= bits (UB-NOTE), emulated<N> (thorough), non-x86 ISAs.')
ASSUMPTIONS = ['clang-14 -O1 lowering is correct', 'x86 intrinsic models (validated against the host CPU by ./check validate)',
               'shift/rotate counts in [0,bits) as the property states; scalar shifts by >= width in the IR are language-level UB and reported as UB-NOTE']
MIN_COVERED = {'quick': 1800, 'thorough': 2000}


def kernels(tier, seed):
    archs = gen.ALL_ARCHS + (['emu128', 'emu256'] if tier == 'thorough' else [])
    return K.c07(archs)
