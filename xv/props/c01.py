"""C01 integer arithmetic: lane_i(kernel(a,b,c)) == scalar spec(a_i,b_i,c_i) for all operand bits, every lane, every arch."""
import z3
from .. import kernels as K, gen, specs
from ..engine import Oblig, region
from ..gen import TYPES, lanes

BOUNDS = ('full-width 128/256/512-bit registers, all operand bit patterns; only fixed-trip lane loops (trip counts concrete); '
          'clang-14 -O1 IR; 23 x86 archs (quick: all; body de-duplication). Outside: emulated<N> (thorough), non-x86 ISAs.')
ASSUMPTIONS = ['clang-14 -O1 lowering is correct', 'x86 intrinsic models (validated against the host CPU by ./check validate)',
               'batch_bool arguments are canonical (all-ones / all-zeros lanes; k-register bit on AVX512)',
               'div/mod: divisor non-zero and not MIN/-1; avgr: a+b >= 0 for signed types (as the property states)']
LEMMAS = [('narrow_div', op, w, 32) for op in ('sdiv', 'srem', 'udiv', 'urem') for w in (8, 16)]
MIN_COVERED = {'quick': 3000, 'thorough': 4000}


def kernels(tier, seed):
    return K.c01(gen.ALL_ARCHS)


def lane_operands(run, i):
    ops = []; ren = {}
    for d, role in zip(run.desc, 'abcdefgh'):
        if d['kind'] == 'v':
            x = d['lanes'][i]; ops.append(x); ren[x.decl().name()] = role
        elif d['kind'] == 'm':
            x = d['bools'][i]; ops.append(x); ren[x.decl().name()] = role
        elif d['kind'] in ('s', 'z'):
            x = d['sym']; ren[x.decl().name()] = role
            ops.append(x)
        elif d['kind'] == 'T':
            x = d['sym']; ops.append(x); ren[x.decl().name()] = role
    return ops, ren


def count_operand(x, w):
    """scalar shift count (i32) -> w-bit operand, with the range fact carried by the caller"""
    if x.size() == w: return x
    if x.size() > w: return z3.Extract(w - 1, 0, x)
    return z3.ZeroExt(w - x.size(), x)


def obligations(run):
    k = run.k
    w = TYPES[k.ty][1]; sg = TYPES[k.ty][2]
    n = lanes(k.ty, k.arch)
    obs = []
    for i in range(n):
        ops, ren = lane_operands(run, i)
        pre_extra = True
        sops = list(ops)
        for j, d in enumerate(run.desc):
            if d['kind'] == 's':
                # the C++ parameter is an int: the property's counts are 0 <= s < bits
                pre_extra = z3.And(z3.ULT(ops[j], w))
                sops[j] = count_operand(ops[j], w)
        pre, post = specs.int_spec(k.op, w, sg, *sops)
        if pre_extra is not True: pre = z3.And(pre_extra, pre) if pre is not specs.T else pre_extra
        obs.append(Oblig(k.op, pre, (lambda post, i: (lambda res: post(lane_bits(res[i]))))(post, i), lane=i, rename=ren, region_args=sops))
    return obs


def lane_bits(x):
    return x.bits() if hasattr(x, 'bits') else x


@region('ssub_b_is_min')
def _r(k, a, b, c=None):
    w = TYPES[k.ty][1]
    return b == z3.BitVecVal(1 << (w - 1), w)
