"""C15 CPU feature detection + dispatch.

The constructor of xsimd::detail::supported_arch is executed symbolically with the results of its inline-asm CPUID / XGETBV calls as
symbolic 32-bit registers (one symbol per (leaf, sub-leaf, register); same leaf => same value).  Availability flags and the dispatcher's
external-call trace become formulas over those registers; the property is decided for all register values at once."""
import re, itertools
import z3
from .. import custom, gen, symex
from ..symex import Executor, Ptr, bv, is_c

BOUNDS = ('all 2^32 values of each of CPUID.1 (eax..edx), CPUID.7.0, CPUID.7.1, CPUID.80000001h and XCR0[31:0] (symbolic), under the hardware-consistency '
          'assumptions the property states; dispatch: all 31 non-empty sub-lists of (avx512bw, avx2, avx, sse4_2, sse2) in best-first order plus the default '
          'supported_architectures list, argument and callee result symbolic. Outside: MSVC/ICC/i386-PIC cpuid paths, non-x86 detection (getauxval).')
ASSUMPTIONS = ['XCR0[2] implies XCR0[1]; XCR0[7:5] all-or-none and only with XCR0[2] (hardware consistency, as in the property)',
               'cpuid/xgetbv inline asm returns arbitrary register values (stub); xgetbv is only executed when OSXSAVE=1 (checked as an obligation: no xgetbv on a path with OSXSAVE=0)',
               'dispatch: at least one architecture of the list is available (asserted by the library)',
               '__cxa_guard_acquire returns 1 (first call of available_architectures())']

# arch -> (C++ spelling, feature predicate name list, required OS state, parent in the extension chain)
ARCHS = {
    'sse2': ('xsimd::sse2', ['sse2'], 'xmm', None), 'sse3': ('xsimd::sse3', ['sse3'], 'xmm', 'sse2'), 'ssse3': ('xsimd::ssse3', ['ssse3'], 'xmm', 'sse3'),
    'sse4_1': ('xsimd::sse4_1', ['sse4_1'], 'xmm', 'ssse3'), 'sse4_2': ('xsimd::sse4_2', ['sse4_2'], 'xmm', 'sse4_1'),
    'fma3_sse4_2': ('xsimd::fma3<xsimd::sse4_2>', ['fma'], 'ymm', 'sse4_2'), 'fma4': ('xsimd::fma4', ['fma4'], 'ymm', 'sse4_2'),
    'avx': ('xsimd::avx', ['avx'], 'ymm', 'sse4_2'), 'fma3_avx': ('xsimd::fma3<xsimd::avx>', ['fma', 'avx'], 'ymm', 'avx'),
    'avx2': ('xsimd::avx2', ['avx2'], 'ymm', 'avx'), 'fma3_avx2': ('xsimd::fma3<xsimd::avx2>', ['fma', 'avx2'], 'ymm', 'avx2'),
    'avxvnni': ('xsimd::avxvnni', ['avxvnni'], 'ymm', 'avx2'),
    'avx512f': ('xsimd::avx512f', ['avx512f'], 'zmm', 'avx2'), 'avx512cd': ('xsimd::avx512cd', ['avx512cd'], 'zmm', 'avx512f'),
    'avx512dq': ('xsimd::avx512dq', ['avx512dq'], 'zmm', 'avx512cd'), 'avx512bw': ('xsimd::avx512bw', ['avx512bw'], 'zmm', 'avx512dq'),
    'avx512er': ('xsimd::avx512er', ['avx512er'], 'zmm', 'avx512cd'), 'avx512pf': ('xsimd::avx512pf', ['avx512pf'], 'zmm', 'avx512er'),
    'avx512ifma': ('xsimd::avx512ifma', ['avx512ifma'], 'zmm', 'avx512bw'), 'avx512vbmi': ('xsimd::avx512vbmi', ['avx512vbmi'], 'zmm', 'avx512ifma'),
    'avx512vbmi2': ('xsimd::avx512vbmi2', ['avx512vbmi2'], 'zmm', 'avx512vbmi'),
    'avx512vnni_bw': ('xsimd::avx512vnni<xsimd::avx512bw>', ['avx512vnni'], 'zmm', 'avx512bw'),
    'avx512vnni_vbmi2': ('xsimd::avx512vnni<xsimd::avx512vbmi2>', ['avx512vnni', 'avx512vbmi2'], 'zmm', 'avx512vbmi2'),
}
# Intel SDM / AMD APM feature bits: name -> (leaf, subleaf, register, bit)
BITS = {'sse2': (1, 0, 'edx', 26), 'sse3': (1, 0, 'ecx', 0), 'ssse3': (1, 0, 'ecx', 9), 'sse4_1': (1, 0, 'ecx', 19), 'sse4_2': (1, 0, 'ecx', 20),
        'fma': (1, 0, 'ecx', 12), 'avx': (1, 0, 'ecx', 28), 'osxsave': (1, 0, 'ecx', 27), 'fma4': (0x80000001, 0, 'ecx', 16),
        'avx2': (7, 0, 'ebx', 5), 'avxvnni': (7, 1, 'eax', 4), 'avx512f': (7, 0, 'ebx', 16), 'avx512dq': (7, 0, 'ebx', 17), 'avx512ifma': (7, 0, 'ebx', 21),
        'avx512pf': (7, 0, 'ebx', 26), 'avx512er': (7, 0, 'ebx', 27), 'avx512cd': (7, 0, 'ebx', 28), 'avx512bw': (7, 0, 'ebx', 30),
        'avx512vbmi': (7, 0, 'ecx', 1), 'avx512vbmi2': (7, 0, 'ecx', 6), 'avx512vnni': (7, 0, 'ecx', 11)}
DISPATCH_POOL = ['avx512bw', 'avx2', 'avx', 'sse4_2', 'sse2']


def reg(leaf, sub, r): return z3.BitVec('cpuid_%x_%x_%s' % (leaf, sub, r), 32)
XCR0 = z3.BitVec('xcr0_low', 32)


def bit(x, i): return z3.Extract(i, i, x) == 1
def feat(name):
    leaf, sub, r, b = BITS[name]; return bit(reg(leaf, sub, r), b)


def os_state(kind):
    osx = feat('osxsave')
    if kind == 'xmm': return z3.BoolVal(True)      # XMM state is managed by FXSAVE; SSE needs no XCR0 check (the property requires OSXSAVE only beyond SSE)
    ymm = z3.And(osx, bit(XCR0, 1), bit(XCR0, 2))
    if kind == 'ymm': return ymm
    return z3.And(ymm, bit(XCR0, 5), bit(XCR0, 6), bit(XCR0, 7))


HW = [z3.Implies(bit(XCR0, 2), bit(XCR0, 1)),
      z3.Or(z3.And(bit(XCR0, 5), bit(XCR0, 6), bit(XCR0, 7)), z3.And(z3.Not(bit(XCR0, 5)), z3.Not(bit(XCR0, 6)), z3.Not(bit(XCR0, 7)))),
      z3.Implies(bit(XCR0, 5), bit(XCR0, 2))]


class Env:
    def __init__(s):
        s.trace = []; s.xgetbv_pcs = []

    def asm(s, ex, st, ins, args, text, cons):
        if 'cpuid' in text:
            leaf, sub = args[0], args[1]
            if not (is_c(leaf) and is_c(sub)): raise symex.Unsupported('symbolic cpuid leaf')
            return [reg(leaf, sub, r) for r in ('eax', 'ebx', 'ecx', 'edx')]
        if 'xgetbv' in text:
            s.xgetbv_pcs.append(list(st.pc))
            return XCR0
        raise symex.Unsupported('asm ' + text)

    def ext(s, ex, st, ins, name, args):
        nm = name[1:]
        if nm == '__cxa_guard_acquire': return 1
        if nm in ('__cxa_guard_release', '__cxa_guard_abort'): return None
        m = re.search(r'xv_target', nm)
        if m:
            r = symex.fresh('target_ret', 32)
            s.trace.append((list(st.pc), nm, args, r))
            return r
        return NotImplemented


def source(lists):
    out = ['#include <xsimd/xsimd.hpp>', '#include <cstdint>', '#define W extern "C" __attribute__((noinline))']
    for a, (ca, _, _, _) in ARCHS.items():
        out.append('W bool has_%s(){ xsimd::detail::supported_arch s; return s.has(%s{}); }' % (a, ca))
    out.append('template <class A> int xv_target(int);')
    out.append('struct F { template <class A> int operator()(A, int x) const { return xv_target<A>(x); } };')
    for i, l in enumerate(lists):
        out.append('W int disp_%d(int x){ return xsimd::dispatch<xsimd::arch_list<%s>>(F{})(x); }' % (i, ', '.join(ARCHS[a][0] for a in l)))
    out.append('W int disp_default(int x){ return xsimd::dispatch(F{})(x); }')
    out.append('template <class L> struct lst; template <class A0, class... As> struct lst<xsimd::arch_list<A0, As...>> { using head = A0; static constexpr unsigned n = 1 + sizeof...(As); };')
    out.append('W unsigned default_len(){ return lst<xsimd::supported_architectures>::n; }')
    out.append('template <class A, class L> struct posof; template <class A> struct posof<A, xsimd::arch_list<>> { static constexpr int value = -1000; };')
    out.append('template <class A, class A0, class... As> struct posof<A, xsimd::arch_list<A0, As...>> { static constexpr int value = std::is_same<A, A0>::value ? 0 : 1 + posof<A, xsimd::arch_list<As...>>::value; };')
    for a, (ca, _, _, _) in ARCHS.items():
        out.append('W int pos_%s(){ return posof<%s, xsimd::supported_architectures>::value; }' % (a, ca))
    out.append('W bool best_is_head(){ return std::is_same<xsimd::best_arch, lst<xsimd::supported_architectures>::head>::value; }')
    out.append('W bool default_is_best(){ return std::is_same<xsimd::default_arch, xsimd::best_arch>::value; }')
    return '\n'.join(out) + '\n'


def run_fn(mod, fn, args):
    env = Env()
    ex = Executor(mod, stubs={'asm': env.asm, '*': env.ext}, fork_timeout_ms=5000, max_steps=2000000)
    ex.assume = list(HW)
    st = ex.run('@' + fn, args)
    return ex, st, env


def as_bool(x):
    if isinstance(x, bool): return z3.BoolVal(x)
    if z3.is_bool(x): return x
    return x != 0


def target_arch(name):
    """mangled xv_target<Arch> -> our arch key"""
    for a, (ca, _, _, _) in sorted(ARCHS.items(), key=lambda kv: -len(kv[1][0])):
        pat = ca.replace('xsimd::', '').replace('<', 'I').replace('>', 'E')
        # Itanium mangling: N5xsimd4avx2E / N5xsimd4fma3INS_6sse4_2EEE ...
        parts = re.findall(r'[a-z0-9_]+', ca.replace('xsimd::', ''))
        if all(('%d%s' % (len(p), p)) in name for p in parts):
            return a
    return None


def main(tier, seed):
    lists = []
    for r in range(1, 6):
        for comb in itertools.combinations(DISPATCH_POOL, r): lists.append(list(comb))
    S = custom.Session('C15', tier, seed, BOUNDS, ASSUMPTIONS)
    mod = S.compile('cpuid', source(lists))
    has = {}
    for a in ARCHS:
        ex, st, env = run_fn(mod, 'has_' + a, [])
        has[a] = as_bool(st.ret)
        S.functions.append('has_' + a)
        for pc in env.xgetbv_pcs:
            S.prove('has<%s>: xgetbv executed only with OSXSAVE=1' % a, HW + pc, feat('osxsave'))
    for a, (ca, feats, osk, parent) in ARCHS.items():
        for f in feats:
            S.prove('available(%s) => CPUID feature bit %s' % (a, f), HW + [has[a]], feat(f), region={'always': z3.BoolVal(True)}, replay=detect_replay(S, a))
        S.prove('available(%s) => OS enabled %s state (OSXSAVE, XCR0)' % (a, osk), HW + [has[a]], os_state(osk),
                region={'osxsave_clear': z3.Not(feat('osxsave')), 'ymm_state_off': z3.Not(z3.And(bit(XCR0, 1), bit(XCR0, 2)))}, replay=detect_replay(S, a))
        # completeness (no spurious refusal): CPU bit + OS state => reported (otherwise the detector could report nothing at all)
        need = [feat(f) for f in feats] + [os_state(osk)] + ([feat('sse2')] if False else [])
        S.prove('feature bit + OS state => available(%s)' % a, HW + need + ([bit(XCR0, 1)] if osk == 'xmm' else []) , has[a], replay=detect_replay(S, a, want=True))
    # monotonicity along the extension chain, on CPUs whose feature bits are closed under it
    closure = []
    for a, (ca, feats, osk, parent) in ARCHS.items():
        if parent:
            closure.append(z3.Implies(z3.And(*[feat(f) for f in feats]), z3.And(*[feat(f) for f in ARCHS[parent][1]])))
    for a, (ca, feats, osk, parent) in ARCHS.items():
        if parent:
            S.prove('available(%s) => available(%s) (closed feature bits)' % (a, parent), HW + closure + [has[a]], has[parent], replay=None)
    # ---------------- dispatch
    for i, l in enumerate(lists):
        check_dispatch(S, mod, 'disp_%d' % i, l, has)
    # default list: best-first with best_arch at its head (compile-time facts folded from the real headers)
    nl = Executor(mod).run('@default_len', []).ret
    S.fact('best_arch is the head of supported_architectures', Executor(mod).run('@best_is_head', []).ret is True)
    S.fact('default_arch is best_arch (no XSIMD_DEFAULT_ARCH override)', Executor(mod).run('@default_is_best', []).ret is True)
    # default dispatcher over the default list: first available member
    ex, st, env = run_fn(mod, 'disp_default', [z3.BitVec('x', 32)])
    pos = {}
    for a in ARCHS:
        r = Executor(mod).run('@pos_' + a, []).ret
        if is_c(r) and r < (1 << 31): pos[a] = r
    order = [a for a, _ in sorted(pos.items(), key=lambda kv: kv[1])]
    S.extra['default_list_order'] = order
    sites = {target_arch(t[1]) for t in env.trace}
    S.fact('default dispatch has exactly one call site per member of supported_architectures', sites == set(order) and len(env.trace) == len(order) and is_c(nl) and len(order) == nl and sorted(pos.values()) == list(range(len(order))), str((nl, order, sites)))
    if sites == set(order) and order:
        # best-first: every architecture precedes all the architectures it extends
        for i, a in enumerate(order):
            par = ARCHS[a][3]
            while par:
                if par in order: S.fact('default list: %s precedes %s' % (a, par), order.index(par) > i)
                par = ARCHS[par][3]
        check_trace(S, 'disp_default', order, env, st, z3.BitVec('x', 32), has, ex)
    return S.finish('one obligation per (architecture, implication) over symbolic CPUID/XCR0 registers, and per (dispatch list, list member) over the call trace; '
                    'ground facts (folded constants) counted as obligations closed without search', min_obligations=300)


def check_dispatch(S, mod, fn, l, has):
    x = z3.BitVec('x', 32)
    ex, st, env = run_fn(mod, fn, [x])
    S.functions.append(fn)
    sites = [target_arch(t[1]) for t in env.trace]
    S.fact('%s%s: one call site per list member' % (fn, l), sorted(sites) == sorted(l), str(sites))
    if sorted(sites) == sorted(l):
        check_trace(S, '%s%s' % (fn, l), l, env, st, x, has, ex)


def check_trace(S, label, l, env, st, x, has, ex):
    base = HW + list(ex.side)
    anyav = z3.Or(*[has[a] for a in l])
    ret = st.ret
    by = {target_arch(t[1]): t for t in env.trace}
    for i, a in enumerate(l):
        pc, nm, args, r = by[a]
        cond = z3.And(*pc) if pc else z3.BoolVal(True)
        first = z3.And(has[a], *[z3.Not(has[b]) for b in l[:i]]) if i < len(l) - 1 else z3.And(*[z3.Not(has[b]) for b in l[:i]])
        S.prove('%s: %s is called iff it is the first available' % (label, a), base + [anyav], cond == first)
        S.prove('%s: argument forwarded to %s and its result returned' % (label, a), base + [anyav, cond], z3.And(bv(args[-1], 32) == x, bv(ret, 32) == r))
    # exactly once: the call conditions are pairwise exclusive and cover
    conds = [z3.And(*t[0]) if t[0] else z3.BoolVal(True) for t in env.trace]
    S.prove('%s: exactly one call on every path' % label, base + [anyav], z3.And(z3.Or(*conds), *[z3.Not(z3.And(conds[i], conds[j])) for i in range(len(conds)) for j in range(i + 1, len(conds))]))


def detect_replay(S, a, want=False):
    """replay: the constructor's IR with the asm calls replaced by a stub returning the model's registers is not rebuilt here; instead the
    real constructor source is compiled with cpuid/xgetbv redirected through macros to a table filled from the model"""
    def fn(m, rdir):
        regs = {}
        for d in m.decls():
            nm = d.name()
            if nm.startswith('cpuid_') or nm == 'xcr0_low': regs[nm] = m[d].as_long()
        table = []
        for (leaf, sub) in [(1, 0), (7, 0), (7, 1), (0x80000001, 0)]:
            vals = [regs.get('cpuid_%x_%x_%s' % (leaf, sub, r), 0) for r in ('eax', 'ebx', 'ecx', 'edx')]
            table.append('{0x%xu, %du, {0x%xu, 0x%xu, 0x%xu, 0x%xu}}' % (leaf, sub, *vals))
        src = r'''
#include <cstdint>
#include <cstdio>
#include <cstring>
struct E { unsigned leaf, sub; unsigned r[4]; };
static const E TABLE[] = { %s };
static unsigned XCR0 = 0x%xu;
static int xgetbv_calls = 0;
#define XV_ASM_STUB 1
''' % (', '.join(table), regs.get('xcr0_low', 0))
        # textual redirection of the two asm statements of the real header
        hdr = open(gen.REPO + '/include/xsimd/config/xsimd_cpuid.hpp').read()
        hdr2 = re.sub(r'__asm__\(\s*"xorl %%ecx, %%ecx\\n"\s*"xgetbv\\n"[^;]*;', 'xcr0 = XCR0; ++xgetbv_calls;', hdr, flags=re.S)
        hdr2 = re.sub(r'__asm__\("cpuid\\n\\t"\s*: "=a"\(reg\[0\]\), "=b"\(reg\[1\]\), "=c"\(reg\[2\]\), "=d"\(reg\[3\]\)\s*: "0"\(level\), "2"\(count\)\);',
                      'for (auto const& e : TABLE) if (e.leaf == (unsigned)level && e.sub == (unsigned)count) { for (int i = 0; i < 4; ++i) reg[i] = (int)e.r[i]; }', hdr2, flags=re.S)
        if hdr2.count('XCR0') < 1 or 'TABLE' not in hdr2:
            return None, dict(why='could not redirect the asm statements textually')
        import os, shutil
        os.makedirs(rdir, exist_ok=True)
        shutil.rmtree(os.path.join(rdir, 'inc'), ignore_errors=True)
        shutil.copytree(gen.REPO + '/include', os.path.join(rdir, 'inc'))
        open(os.path.join(rdir, 'inc', 'xsimd', 'config', 'xsimd_cpuid.hpp'), 'w').write(hdr2)
        main = src + '#include <xsimd/xsimd.hpp>\nint main(){ xsimd::detail::supported_arch s; std::printf("%%d\\n", (int)s.has(%s{})); }\n' % ARCHS[a][0]
        rc = os.path.join(rdir, 'replay.cpp'); open(rc, 'w').write(main)
        import subprocess
        cmd = ['g++', '-std=c++17', '-O1', '-I' + os.path.join(rdir, 'inc'), '-march=native', rc, '-o', os.path.join(rdir, 'replay.bin')]
        open(os.path.join(rdir, 'run.sh'), 'w').write('#!/bin/sh\ncd "$(dirname "$0")" && g++ -std=c++17 -O1 -Iinc -march=native replay.cpp -o replay.bin && ./replay.bin\n')
        p = subprocess.run(cmd, capture_output=True, text=True)
        info = dict(inputs={k: hex(v) for k, v in regs.items()}, arch=a)
        if p.returncode != 0: info['why'] = 'compile failed ' + p.stderr[:300]; return None, info
        q = subprocess.run([os.path.join(rdir, 'replay.bin')], capture_output=True, text=True, timeout=20)
        info['native'] = 'has(%s) = %s' % (a, q.stdout.strip())
        got = q.stdout.strip() == '1'
        return (got != want), info
    return fn
