"""C12 elementary functions: special values, domains, limits and exact symmetries (no accuracy involved).

Three kinds of obligations on the real kernels (generic math kernels instantiated on the four primitive sets sse2 / sse4_1 / fma3<avx2> /
avx512f, float and double):

 region   (abstract FP mode: fadd/fmul/fdiv/fma/sqrt are uninterpreted functions carrying only IEEE theorems; comparisons, bit manipulation,
          conversions, rounding and selects exact) - one query covers *every* argument of the region and arbitrary companions in the other lanes:
          NaN in => NaN out (all payloads), out-of-domain => NaN, select-dominated limits (log(+-0) = -inf, exp(x >= maxlog) = +inf, ...),
          tgamma/lgamma at *all* negative integers.
 symm     (abstract mode, two copies of the kernel obtained by substituting x -> -x in the result term; both copies share every
          uninterpreted application on |x|): f(-x) = -f(x) / f(-x) = f(x) bit-for-bit for every non-NaN x; sincos = (sin, cos); fabs = abs;
          rint = nearbyint.
 point    (exact FP mode, concrete special operand broadcast to all lanes: the executor folds the kernel with exact IEEE semantics):
          the limits and identities the property lists whose value depends on polynomial arithmetic (tanh(+-inf) = +-1, erf(+-inf) = +-1,
          exp(0) = 1, cos(0) = 1, atan(+-inf) = +-pi/2, pow(x, 0) = 1, ...).
"""
import struct
import z3
from .. import kernels as K, gen, specs, mathstubs
from ..engine import Oblig, region
from ..gen import TYPES, lanes, Kernel
from ..symex import F, mask
from .c03 import tobv

BOUNDS = ('quick tier: region / domain / symmetry obligations on one lane (lane 0 or the last lane, by VERIF_SEED), point obligations on both, 240 s per kernel body and 30 s per query (what does not fit is listed undecided); region/symm obligations: every float32 / float64 argument of the stated region in the examined lane, arbitrary values in the other lanes, arithmetic abstracted '
          '(sound over-approximation: unsat carries over to IEEE arithmetic); point obligations: the listed special operands, all lanes equal, exact IEEE evaluation; '
          'kernel variants: sse2, sse4_1, fma3<avx2>, avx512f (the generic math kernels are architecture-independent source; these are the distinct primitive sets). '
          'Outside: accuracy of any finite result (C10/C11), __ieee754_rem_pio2 (stubbed: deterministic function of its argument, NaN/inf -> NaN).')
ASSUMPTIONS = ['clang-14 -O1 lowering is correct', 'x86 intrinsic models', 'MXCSR default rounding, no FTZ/DAZ',
               'abstract mode facts are IEEE-754 theorems: commutativity of add/mul/fma operands, NaN propagation, sqrt(x<0)=NaN, x-y = x+(-y), sign symmetry of mul/div for non-NaN results',
               '__ieee754_rem_pio2 is kept out of line by the XSIMD_VERIF_HOOKS guard and modelled as a deterministic function with y = NaN, n = 0 for NaN/inf arguments',
               'NaN results are compared as NaN (payload/sign unspecified)', 'point obligations: NaN intermediates produced from concrete operands carry the x86 default QNaN bit pattern']
EXTRA_FLAGS = ['-DXSIMD_VERIF_HOOKS']
JOB_BUDGET = {'quick': 240, 'thorough': 3600}
IGNORE_INTERNAL = ('unwind',)     # termination / loop bounds are C14's obligations; here paths are cut after max_unwind iterations (stated bound)
MIN_COVERED = {'quick': 300, 'thorough': 500}
TIMEOUT = {'quick': 30, 'thorough': 600}
QUICK_VARIANTS = ['sse2', 'avx512f']

UNARY = K.MATH_UNARY
SYM_OPS = ('erf', 'cbrt')
ODD = ['sin', 'tan', 'asin', 'atan', 'sinh', 'tanh', 'asinh', 'atanh', 'erf', 'cbrt']
EVEN = ['cos', 'cosh']


def fbits(v, w):
    if w == 32: return struct.unpack('<I', struct.pack('<f', v))[0]
    return struct.unpack('<Q', struct.pack('<d', v))[0]


INF = float('inf'); NAN = float('nan')
PI_2 = 1.5707963267948966
# fn -> [(operand(s), expectation)]; expectation: ('eq', value) bit-exact | ('val', value) numerically equal (sign of zero free) | ('nan',) | ('near', value, ulps)
POINTS = {
    'log': [(0.0, ('eq', -INF)), (-0.0, ('eq', -INF)), (1.0, ('val', 0.0)), (INF, ('eq', INF))],
    'log2': [(0.0, ('eq', -INF)), (-0.0, ('eq', -INF)), (1.0, ('val', 0.0))],
    'log10': [(0.0, ('eq', -INF)), (-0.0, ('eq', -INF)), (1.0, ('val', 0.0))],
    'log1p': [(-1.0, ('eq', -INF)), (0.0, ('val', 0.0))],
    'exp': [(-INF, ('eq', 0.0)), (INF, ('eq', INF)), (0.0, ('eq', 1.0)), (-0.0, ('eq', 1.0))],
    'exp2': [(-INF, ('eq', 0.0)), (INF, ('eq', INF)), (0.0, ('eq', 1.0))],
    'exp10': [(-INF, ('eq', 0.0)), (INF, ('eq', INF)), (0.0, ('eq', 1.0))],
    'expm1': [(-INF, ('eq', -1.0)), (INF, ('eq', INF)), (0.0, ('val', 0.0))],
    'atan': [(INF, ('near', PI_2, 1)), (-INF, ('near', -PI_2, 1)), (0.0, ('eq', 0.0))],
    'tanh': [(INF, ('eq', 1.0)), (-INF, ('eq', -1.0))],
    'erf': [(INF, ('eq', 1.0)), (-INF, ('eq', -1.0))],
    'erfc': [(INF, ('eq', 0.0)), (-INF, ('eq', 2.0))],
    'tgamma': [(0.0, ('eq', INF)), (-0.0, ('eq', -INF)), (-1.0, ('nan',)), (-2.0, ('nan',)), (-3.0, ('nan',)), (-10.0, ('nan',)), (-100.0, ('nan',)), (-1e6, ('nan',)), (1.0, ('eq', 1.0))],
    'lgamma': [(-1.0, ('eq', INF)), (-2.0, ('eq', INF)), (-3.0, ('eq', INF)), (-10.0, ('eq', INF)), (-34.0, ('eq', INF)), (-35.0, ('eq', INF)), (-100.0, ('eq', INF)), (-1e6, ('eq', INF)), (0.0, ('eq', INF))],
    'cbrt': [(INF, ('eq', INF)), (-INF, ('eq', -INF)), (0.0, ('eq', 0.0)), (-0.0, ('eq', -0.0))],
    'cos': [(0.0, ('eq', 1.0)), (-0.0, ('eq', 1.0)), (INF, ('nan',)), (-INF, ('nan',))],
    'sin': [(INF, ('nan',)), (-INF, ('nan',)), (0.0, ('eq', 0.0)), (-0.0, ('eq', -0.0))],
    'tan': [(INF, ('nan',)), (0.0, ('eq', 0.0))],
    'sqrt': [(INF, ('eq', INF)), (0.0, ('eq', 0.0)), (-0.0, ('eq', -0.0)), (-INF, ('nan',))],
    'asin': [(0.0, ('eq', 0.0))],
    'acos': [(1.0, ('val', 0.0))],
    'acosh': [(1.0, ('val', 0.0)), (INF, ('eq', INF))],
    'atanh': [(1.0, ('eq', INF)), (-1.0, ('eq', -INF))],
    'sinh': [(INF, ('eq', INF)), (-INF, ('eq', -INF))],
    'cosh': [(INF, ('eq', INF)), (-INF, ('eq', INF)), (0.0, ('eq', 1.0))],
    'asinh': [(INF, ('eq', INF)), (-INF, ('eq', -INF))],
}
POW_POINTS = [((x, y), ('eq', 1.0)) for x in (1.0, -1.0, 2.0, -2.0, 0.5, 3.75, -3.75, 1e30, -1e30, 1e-30, 1.1754943508222875e-38, 1e-45) for y in (0.0, -0.0)]
DOMAIN = {
    'log': 'lt0', 'log2': 'lt0', 'log10': 'lt0', 'log1p': 'ltm1', 'sqrt': 'lt0', 'asin': 'absgt1', 'acos': 'absgt1', 'acosh': 'lt1', 'atanh': 'absgt1',
}
# select-dominated limits provable for a whole region in abstract mode: fn -> (region name, expectation)
REGION_LIMITS = {
    'log': [('zero', ('eq', -INF)), ('pinf', ('eq', INF))], 'log2': [('zero', ('eq', -INF))], 'log10': [('zero', ('eq', -INF))],
    'exp': [('pinf', ('eq', INF)), ('ninf', ('eq', 0.0))],
    'cbrt': [('pinf', ('eq', INF)), ('ninf', ('eq', -INF))],
    'tgamma': [('negint', ('nan',)), ('pzero', ('eq', INF)), ('nzero', ('eq', -INF))],
    'lgamma': [('negint', ('eq', INF))],
}


def variants(tier):
    return QUICK_VARIANTS if tier == 'quick' else K.MATH_ARCHS


def lanes_checked(k, n, cheap=False):
    """quick: point obligations (folded concretely) on lane 0 and the last lane; region / domain / symmetry obligations (solver search) on
    one of those two lanes, chosen by VERIF_SEED (the kernels are lane-symmetric source; C13 covers lane independence); thorough: every lane"""
    import os
    if os.environ.get('XV_TIER', _TIER[0]) == 'thorough': return list(range(n))
    if cheap: return sorted({0, n - 1})
    return [0 if int(os.environ.get('VERIF_SEED') or 0) % 2 == 0 else n - 1]


def job_priority(k):
    if 'concrete' in k.meta: return 0
    return {'lgamma': 9, 'tgamma': 9, 'sin': 7, 'cos': 7, 'tan': 7, 'sincos_s': 7, 'sincos_c': 7, 'id_sincos_sin': 8, 'id_sincos_cos': 8, 'pow': 6, 'erf': 5, 'erfc': 5}.get(k.op, 1)


_TIER = ['quick']


def kernels(tier, seed):
    _TIER[0] = tier
    ks = []
    for arch in variants(tier):
        for ty in gen.FTYPES:
            w = TYPES[ty][1]; n = lanes(ty, arch)
            for f in UNARY:
                k = K.mk('C12', f, 'v', 'v', 'xsimd::%s(a)' % f, ty, arch); ks.append(k)
                if f in DOMAIN:
                    ks.append(Kernel('C12', f, ty, arch, [('v', ty)], ('v', ty), 'xsimd::%s(a)' % f, variant='dom', meta={'fname': k.name}))
                for j, (x, exp) in enumerate(POINTS.get(f, [])):
                    if abs(x) > 3e38 and x not in (INF, -INF) and w == 32: continue
                    ks.append(Kernel('C12', f, ty, arch, [('v', ty)], ('v', ty), 'xsimd::%s(a)' % f, variant='pt%d' % j,
                                     meta={'fname': k.name, 'concrete': {'a': [fbits(x, w)] * n}, 'expect': exp, 'point': repr(x)}))
            kp = K.mk('C12', 'pow', 'vv', 'v', 'xsimd::pow(a, b)', ty, arch); ks.append(kp)
            for j, ((x, y), exp) in enumerate(POW_POINTS):
                if w == 32 and abs(x) < 1e-40: x = 1.401298464324817e-45
                ks.append(Kernel('C12', 'pow', ty, arch, [('v', ty), ('v', ty)], ('v', ty), 'xsimd::pow(a, b)', variant='pt%d' % j,
                                 meta={'fname': kp.name, 'concrete': {'a': [fbits(x, w)] * n, 'b': [fbits(y, w)] * n}, 'expect': exp, 'point': repr((x, y))}))
            for f in ('atan2', 'hypot'):
                ks.append(K.mk('C12', f, 'vv', 'v', 'xsimd::%s(a, b)' % f, ty, arch))
            ks.append(K.mk('C12', 'sincos_s', 'v', 'v', 'xsimd::sincos(a).first', ty, arch))
            ks.append(K.mk('C12', 'sincos_c', 'v', 'v', 'xsimd::sincos(a).second', ty, arch))
            b = gen.B(ty, arch)
            # identities between two public functions: both computed in one wrapper, outputs compared bit-for-bit
            ks.append(Kernel('C12', 'id_sincos_sin', ty, arch, [('v', ty)], ('v', K.IT[w]),
                             'xsimd::bitwise_cast<%s>(xsimd::sincos(a).first) ^ xsimd::bitwise_cast<%s>(xsimd::sin(a))' % (TYPES[K.IT[w]][0], TYPES[K.IT[w]][0])))
            ks.append(Kernel('C12', 'id_sincos_cos', ty, arch, [('v', ty)], ('v', K.IT[w]),
                             'xsimd::bitwise_cast<%s>(xsimd::sincos(a).second) ^ xsimd::bitwise_cast<%s>(xsimd::cos(a))' % (TYPES[K.IT[w]][0], TYPES[K.IT[w]][0])))
            ks.append(Kernel('C12', 'id_fabs_abs', ty, arch, [('v', ty)], ('v', K.IT[w]),
                             'xsimd::bitwise_cast<%s>(xsimd::fabs(a)) ^ xsimd::bitwise_cast<%s>(xsimd::abs(a))' % (TYPES[K.IT[w]][0], TYPES[K.IT[w]][0])))
            ks.append(Kernel('C12', 'id_rint_nearbyint', ty, arch, [('v', ty)], ('v', K.IT[w]),
                             'xsimd::bitwise_cast<%s>(xsimd::rint(a)) ^ xsimd::bitwise_cast<%s>(xsimd::nearbyint(a))' % (TYPES[K.IT[w]][0], TYPES[K.IT[w]][0])))
    return ks


def exec_opts(k):
    if 'concrete' in k.meta:
        return {'fpmode': 'exact', 'max_unwind': 80, 'stubs': mathstubs.STUBS, 'max_steps': 2000000, 'concrete_nan': True}
    import os
    if k.variant == 'dom':
        return {'fpmode': 'mixed', 'max_unwind': 8, 'stubs': mathstubs.STUBS, 'sym_muldiv': bool(os.environ.get('XV_SYMDOM'))}
    # sign-symmetric multiplication / division only where the plain commutative abstraction is known to be too weak (x*x on a signed x):
    # it costs the solver an extra case split per product
    if k.op in ('tgamma', 'lgamma'):
        # the recurrence loops are cut after 3 symbolic iterations (region obligations then cover the arguments that need <= 3; the point
        # obligations run the loops concretely to the end); loop termination itself is C14
        return {'fpmode': 'abstract', 'max_unwind': 3, 'stubs': mathstubs.STUBS, 'lazy_forks': True}
    return {'fpmode': 'abstract', 'max_unwind': 8, 'stubs': mathstubs.STUBS, 'sym_muldiv': k.op in SYM_OPS}


def bits_of(x): return x.bits() if isinstance(x, F) else x


def fpv(b, w): return specs.fpv(b, w)


def in_region(name, a, w):
    x = fpv(a, w)
    c = lambda v: specs.fpc(v, w)
    if name == 'lt0': return z3.fpLT(x, c(0.0))
    if name == 'ltm1': return z3.fpLT(x, c(-1.0))
    if name == 'lt1': return z3.fpLT(x, c(1.0))
    if name == 'absgt1': return z3.fpGT(z3.fpAbs(x), c(1.0))
    if name == 'zero': return z3.fpIsZero(x)
    if name == 'pzero': return a == 0
    if name == 'nzero': return a == (1 << (w - 1))
    if name == 'pinf': return a == fbits(INF, w)
    if name == 'ninf': return a == fbits(-INF, w)
    if name == 'negint': return z3.And(z3.fpLT(x, c(0.0)), z3.Not(z3.fpIsInf(x)), z3.fpRoundToIntegral(z3.RTZ(), x) == x)
    raise KeyError(name)


def expect_pred(exp, r, w):
    """r: result bits (BV or int) -> BoolRef"""
    r = tobv(r, w)
    if exp[0] == 'nan': return z3.fpIsNaN(fpv(r, w))
    if exp[0] == 'eq': return r == fbits(exp[1], w)
    if exp[0] == 'val': return z3.fpEQ(fpv(r, w), specs.fpc(exp[1], w))
    if exp[0] == 'near':
        c = fbits(exp[1], w)      # python double rounded to the width by struct (float32: correctly rounded)
        return z3.Or(*[r == c + d for d in range(-exp[2], exp[2] + 1)])
    raise KeyError(exp)


def subst_neg(term, run, w):
    """the result term with every input lane x replaced by -x"""
    sb = z3.BitVecVal(1 << (w - 1), w)
    pairs = [(x, x ^ sb) for x in run.desc[0]['lanes']]
    return z3.substitute(term, *pairs)


def obligations(run):
    k = run.k; op = k.op; w = TYPES[k.ty][1]; n = lanes(k.ty, k.arch)
    D = run.desc
    obs = []
    if 'concrete' in k.meta:
        exp = k.meta['expect']
        for i in lanes_checked(k, n, cheap=True):
            obs.append(Oblig('%s(%s)' % (op, k.meta['point']), True, (lambda i: lambda res: expect_pred(exp, bits_of(res[i]), w))(i), lane=i, kind='point'))
        return obs
    if op.startswith('id_'):
        for i in lanes_checked(k, n):
            a = D[0]['lanes'][i]
            pre = z3.Not(z3.fpIsNaN(fpv(a, w))) if op != 'id_fabs_abs' else True
            obs.append(Oblig(op, pre, (lambda i: lambda res: tobv(bits_of(res[i]), w) == 0)(i), lane=i, rename={a.decl().name(): 'a'}))
        return obs
    symm_op = op in ODD or op in EVEN or op in ('sincos_s', 'sincos_c')
    sides_neg = [subst_neg(sd, run, w) for sd in run.ex.side] if symm_op else []
    for i in lanes_checked(k, n):
        a = D[0]['lanes'][i]
        x = fpv(a, w)
        R = (lambda i: lambda res: tobv(bits_of(res[i]), w))(i)
        isnan_res = (lambda R: lambda res: z3.fpIsNaN(fpv(R(res), w)))(R)
        if k.variant == 'dom':
            obs.append(Oblig(op + '.domain', in_region(DOMAIN[op], a, w), isnan_res, lane=i, kind='region'))
            continue
        if op in UNARY or op in ('sincos_s', 'sincos_c'):
            obs.append(Oblig(op + '.nan', z3.fpIsNaN(x), isnan_res, lane=i, kind='region'))
        for rg, exp in REGION_LIMITS.get(op, []):
            obs.append(Oblig('%s.%s' % (op, rg), in_region(rg, a, w), (lambda R, exp: lambda res: expect_pred(exp, R(res), w))(R, exp), lane=i, kind='region', region_args=[a]))
        if op in ODD or op in EVEN or op == 'sincos_s' or op == 'sincos_c':
            odd = op in ODD or op == 'sincos_s'
            sb = z3.BitVecVal(1 << (w - 1), w)
            def post(res, R=R, odd=odd):
                r = R(res)
                rn = subst_neg(r, run, w)
                # bit-for-bit for every non-NaN result; a NaN result (argument outside the domain) must stay NaN (its sign/payload is not a value)
                return z3.If(z3.fpIsNaN(fpv(r, w)), z3.fpIsNaN(fpv(rn, w)), rn == ((r ^ sb) if odd else r))
            obs.append(Oblig(op + ('.odd' if odd else '.even'), z3.And(z3.Not(z3.fpIsNaN(x)), *sides_neg), post, lane=i, kind='symm', replay_fn=symm_replay(i, odd), steer_fn=symm_steer(i, odd)))
        if op in ('pow', 'atan2', 'hypot'):
            b = D[1]['lanes'][i]; y = fpv(b, w)
            if op == 'pow':
                nonint = z3.And(z3.Not(z3.fpIsNaN(y)), z3.Not(z3.fpIsInf(y)), z3.fpRoundToIntegral(z3.RTZ(), y) != y)
                obs.append(Oblig('pow.domain', z3.And(z3.fpLT(x, specs.fpc(0.0, w)), z3.Not(z3.fpIsInf(x)), nonint), isnan_res, lane=i, kind='region'))
                obs.append(Oblig('pow.nan_base', z3.And(z3.fpIsNaN(x), z3.Not(z3.fpIsZero(y))), isnan_res, lane=i, kind='region'))
            else:
                obs.append(Oblig(op + '.nan', z3.And(z3.Or(z3.fpIsNaN(x), z3.fpIsNaN(y)), z3.Not(z3.fpIsInf(x)), z3.Not(z3.fpIsInf(y))), isnan_res, lane=i, kind='region'))
    return obs


def symm_replay_inputs(run, inputs, rdir, i, odd):
    """native confirmation of a symmetry counterexample: run the wrapper on x and on -x"""
    from .. import engine
    k = run.k; w = TYPES[k.ty][1]
    neg = {nm: [v ^ (1 << (w - 1)) for v in vs] for nm, vs in inputs.items()}
    r1, why1 = engine.native_run(k, inputs, rdir, tag='replay')
    r2, why2 = engine.native_run(k, neg, rdir, tag='replay_neg')
    info = dict(inputs=engine.show_inputs(inputs), why='%s / %s' % (why1, why2))
    if r1 is None or r2 is None: return None, info
    a = int.from_bytes(r1[i * w // 8:(i + 1) * w // 8], 'little'); b = int.from_bytes(r2[i * w // 8:(i + 1) * w // 8], 'little')
    info['native'] = 'f(x) lane %d = %#x, f(-x) = %#x' % (i, a, b)
    want = (a ^ (1 << (w - 1))) if odd else a
    em = ((1 << (w - 1)) - 1) & ~((1 << (23 if w == 32 else 52)) - 1); mm = (1 << (23 if w == 32 else 52)) - 1
    isnan = lambda v: (v & em) == em and (v & mm) != 0
    if isnan(a): return (not isnan(b)), info
    return (b != want), info


def symm_replay(i, odd):
    from .. import harness
    def fn(m, run, rdir):
        return symm_replay_inputs(run, harness.model_inputs(m, run.desc, run.ex), rdir, i, odd)
    return fn


def symm_steer(i, odd):
    """called when the solver's counterexample of a symmetry obligation does not reproduce natively (abstract arithmetic: the two copies
    take different paths for the model's argument, but the real arithmetic gives the same value there, e.g. both overflow).  The set of
    arguments on which the copies *can* differ is then searched towards its edge: bisection on the magnitude of the examined lane, every
    step one solver query (is there a counterexample with |x| <= mid?), every model replayed natively; finally a short ladder of arguments
    just above the smallest divergent magnitude is replayed.  A reproduced difference is a violation; otherwise the obligation stays
    undecided (never a pass)."""
    from .. import harness
    def fn(dec, assumptions, goal, m, run, rdir):
        k = run.k; w = TYPES[k.ty][1]
        a = run.desc[0]['lanes'][i]; mm = z3.BitVecVal((1 << (w - 1)) - 1, w)
        mag = a & mm
        hi = m.eval(mag, model_completion=True).as_long(); lo = -1
        last = harness.model_inputs(m, run.desc, run.ex)
        steps = 0
        while hi - lo > 1 and steps < 36:
            steps += 1
            mid = (lo + hi) // 2
            extra = [z3.ULE(mag, z3.BitVecVal(mid, w))] + ([z3.UGT(mag, z3.BitVecVal(lo, w))] if lo >= 0 else [])
            r, m2 = dec.check(assumptions + extra, goal, None, 'steer')
            if r == 'sat':
                inputs = harness.model_inputs(m2, run.desc, run.ex)
                verdict, info = symm_replay_inputs(run, inputs, '%s_s%d' % (rdir, steps), i, odd)
                if verdict: info['rdir'] = '%s_s%d' % (rdir, steps); return True, info
                hi = m2.eval(mag, model_completion=True).as_long(); last = inputs
            elif r == 'unsat': lo = mid
            else: break
        nm = run.desc[0]['name']
        sign = last[nm][i] & (1 << (w - 1))
        for j, d in enumerate((0, 1, 2, 3, 5, 9, 17, 65, 257, 1025, 4097, 1 << 14, 1 << 16, 1 << 18, 1 << 19, 1 << 20)):
            v = hi + d
            if v >= ((1 << (w - 1)) - 1) & ~((1 << (23 if w == 32 else 52)) - 1): break     # inf / NaN
            inputs = {kk: list(vv) for kk, vv in last.items()}
            inputs[nm] = [sign | v] * len(inputs[nm])
            verdict, info = symm_replay_inputs(run, inputs, '%s_l%d' % (rdir, j), i, odd)
            if verdict: info['rdir'] = '%s_l%d' % (rdir, j); return True, info
        return False, dict(inputs={}, why='no argument between the smallest divergent magnitude %#x and its neighbours reproduces a difference natively' % hi)
    return fn
