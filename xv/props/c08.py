"""C08 rounding: ceil/floor/trunc/round/nearbyint/rint == roundToIntegral in RTP/RTN/RTZ/RNA/RNE for every float32 and float64 input
(compared with fp.eq, so the sign of a zero result is free; NaN -> NaN); nearbyint_as_int / to_int == fp.to_sbv whenever the value fits."""
import z3
from .. import kernels as K, gen, specs
from ..engine import Oblig
from ..gen import TYPES, lanes
from ..symex import F
from .c03 import tobv

BOUNDS = 'every float32 / float64 bit pattern per lane (exact SMT-LIB FloatingPoint semantics, default rounding mode RNE, no FTZ/DAZ); 23 x86 archs'
ASSUMPTIONS = ['clang-14 -O1 lowering is correct', 'x86 intrinsic models (roundps/rndscale/cvt* per Intel SDM)', 'MXCSR default: round-to-nearest-even, exceptions masked',
               'nearbyint_as_int / to_int: the rounded value fits the destination integer type (as the property states)']
MIN_COVERED = {'quick': 300, 'thorough': 350}
TIMEOUT = {'quick': 200, 'thorough': 900}     # the float64 conversion-based generic kernels (sse2) need 50-100 s per lane


def kernels(tier, seed):
    archs = gen.ALL_ARCHS + (['emu128', 'emu256'] if tier == 'thorough' else [])
    return K.c08(archs)


def bits_of(x): return x.bits() if isinstance(x, F) else x


def obligations(run):
    k = run.k; op = k.op
    w = TYPES[k.ty][1]; n = lanes(k.ty, k.arch)
    obs = []
    for i in range(n):
        a = run.desc[0]['lanes'][i]
        if op in specs.ROUND_MODES: pre, post = specs.round_spec(op, w, a)
        else: pre, post = specs.fp_to_int_spec(op, w, a)
        obs.append(Oblig(op, pre, (lambda i, post: lambda res: post(res[i]))(i, post), lane=i, rename={a.decl().name(): 'a'}, region_args=[a]))
    return obs
