"""C06 conversions: every lane of batch_cast / to_int / to_float / broadcast_as / load_as / store_as equals static_cast of that lane
whenever the source value is representable (int->fp RNE, fp->int truncation, int<->int modular, fp<->fp RNE); bitwise_cast reproduces the
register bytes and is an involution.  Oracle: SMT-LIB to_fp / fp.to_sbv / fp.to_ubv and bit-vector extension/truncation, all source values."""
import z3
from .. import kernels as K, gen, specs
from ..engine import Oblig
from ..gen import TYPES, lanes
from ..symex import F, mask
from .c03 import tobv
from .c04 import access_obligs, elem, regbytes

BOUNDS = ('every source bit pattern per lane (all 2^32 / 2^64 integers, every float32 / float64), every pointer value and memory content for load_as / store_as; '
          'all same-width (From,To) pairs for batch_cast, all 90 ordered pairs for bitwise_cast / load_as / store_as / broadcast_as; 23 x86 archs. '
          'fp->int claimed when trunc(x) fits the destination (as the property states), NaN excluded; fp64->fp32 = RNE.')
ASSUMPTIONS = ['clang-14 -O1 lowering is correct', 'x86 intrinsic models (cvt* per Intel SDM, integer indefinite on overflow)', 'MXCSR default: round-to-nearest-even',
               'aligned load_as / store_as are called with pointers that are multiples of A::alignment()',
               'scalar fptosi/fptoui out of range is poison (a fresh value): results depending on it cannot be proved']
MIN_COVERED = {'quick': 5000, 'thorough': 9000}
TIMEOUT = {'quick': 120, 'thorough': 900}
NAME_MEMORY_BYTES = True


def kernels(tier, seed):
    archs = gen.ALL_ARCHS + (['emu128', 'emu256'] if tier == 'thorough' else [])
    return K.c06(archs, tier)


def bits_of(x): return x.bits() if isinstance(x, F) else x


def conv_spec(f, t, a):
    """a: source bits (BV of width wf) -> (pre, post(result)) for static_cast<To>(From a)"""
    cf_, wf, sf, kf = TYPES[f]; ct, wt, st, kt = TYPES[t]
    if kf == 'int' and kt == 'int':
        if wt <= wf: want = z3.Extract(wt - 1, 0, a) if wt < wf else a
        else: want = z3.SignExt(wt - wf, a) if sf else z3.ZeroExt(wt - wf, a)
        return True, lambda r: specs.RB(r, wt) == want
    if kf == 'int' and kt == 'fp':
        S = specs.FS(wt)
        want = z3.fpSignedToFP(specs.RNE, a, S) if sf else z3.fpUnsignedToFP(specs.RNE, a, S)
        return True, lambda r: specs.RF(r, wt) == want
    if kf == 'fp' and kt == 'int':
        return specs.fp_to_int_spec('to_int', wf, a, signed=st, dw=wt)
    # fp -> fp
    x = specs.fpv(a, wf)
    want = z3.fpFPToFP(specs.RNE, x, specs.FS(wt))
    return True, lambda r: specs.RF(r, wt) == want


def assume(run):
    k = run.k; out = []
    for d in run.desc:
        if d['kind'] == 'ptr':
            base = d['base']
            out.append(z3.ULE(base, z3.BitVecVal((1 << 64) - 1 - 4096, 64)))
            if k.meta.get('aligned'):
                out.append(z3.URem(base, z3.BitVecVal(regbytes(k), 64)) == 0)
            else:
                # a T* always points to a properly aligned T (alignof == sizeof for the arithmetic element types)
                el = TYPES[k.meta['from'] if k.op.startswith('load') else k.meta['to']][1] // 8
                out.append(z3.URem(base, z3.BitVecVal(el, 64)) == 0)
    return out


def obligations(run):
    k = run.k; op = k.op
    f = k.meta['from']; t = k.meta['to']
    wf = TYPES[f][1]; wt = TYPES[t][1]
    D = run.desc
    obs = []
    if op in ('batch_cast', 'to_int', 'to_float'):
        n = lanes(f, k.arch)
        for i in range(n):
            a = D[0]['lanes'][i]
            pre, post = conv_spec(f, t, a)
            obs.append(Oblig(op, pre, (lambda i, post: lambda res: post(res[i]))(i, post), lane=i, rename={a.decl().name(): 'a'}, region_args=[a]))
    elif op == 'broadcast_as':
        n = lanes(t, k.arch)
        a = D[0]['sym']
        pre, post = conv_spec(f, t, a)
        for i in range(n):
            obs.append(Oblig(op, pre, (lambda i, post: lambda res: post(res[i]))(i, post), lane=i))
    elif op == 'bitwise_cast':
        nf = lanes(f, k.arch); nt = lanes(t, k.arch)
        src = D[0]['lanes']
        whole = z3.Concat(*reversed(src)) if nf > 1 else src[0]
        for i in range(nt):
            obs.append(Oblig(op, True, (lambda i: lambda res: tobv(bits_of(res[i]), wt) == z3.Extract((i + 1) * wt - 1, i * wt, whole))(i), lane=i))
    elif op == 'bitwise_cast_rt':
        nf = lanes(f, k.arch)
        for i in range(nf):
            obs.append(Oblig(op, True, (lambda i: lambda res: tobv(bits_of(res[i]), wf) == D[0]['lanes'][i])(i), lane=i))
    elif op.startswith('load_as'):
        n = lanes(t, k.arch); sz = wf // 8
        for i in range(n):
            a = elem(run, 'a', i, sz)
            pre, post = conv_spec(f, t, a)
            obs.append(Oblig(op, pre, (lambda i, post: lambda res: post(res.val[i]))(i, post), lane=i, rename={}))
        obs += access_obligs(run, k, 'a', n * sz, 'rw')
    elif op.startswith('store_as'):
        n = lanes(f, k.arch); sz = wt // 8
        x = D[1]['lanes']
        for i in range(n):
            pre, post = conv_spec(f, t, x[i])
            def got(res, i=i):
                bs = [tobv(res.byte('a', i * sz + q), 8) for q in reversed(range(sz))]
                return z3.Concat(*bs) if sz > 1 else bs[0]
            obs.append(Oblig(op, pre, (lambda i, post, got: lambda res: post(got(res)))(i, post, got), lane=i, kind='mem', rename={x[i].decl().name(): 'a'}))
        for off in list(range(-32, 0)) + list(range(n * sz, n * sz + 32)):
            obs.append(Oblig(op + '.outside', True, (lambda off: lambda res: tobv(res.byte('a', off), 8) == run.mem0('a', off))(off), lane=off, kind='mem'))
        obs += access_obligs(run, k, 'a', n * sz, 'rw')
    else:
        raise KeyError(op)
    return obs
