"""Scalar oracles as z3 terms.  Written once, used for batch lanes (C01..C08) and scalar overloads (C17).

Each integer spec takes (w, signed, *lane operands as BV) and returns (pre, post) where
  pre  : BoolRef | True  — the property's stated precondition on this lane's operands
  post : function(result BV) -> BoolRef
"""
import z3
from .symex import mask

T = z3.BoolVal(True)


def eqto(v): return lambda r: r == v


def MIN(w): return z3.BitVecVal(1 << (w - 1), w)
def MAX(w): return z3.BitVecVal((1 << (w - 1)) - 1, w)


def clamp_s(x, w):
    """x: (w+2)-bit signed exact value -> w-bit saturated"""
    e = x.size()
    hi = z3.BitVecVal((1 << (w - 1)) - 1, e); lo = z3.BitVecVal(-(1 << (w - 1)), e)
    return z3.Extract(w - 1, 0, z3.If(x > hi, hi, z3.If(x < lo, lo, x)))


def clamp_u(x, w):
    e = x.size()
    hi = z3.BitVecVal(mask(w), e); lo = z3.BitVecVal(0, e)
    return z3.Extract(w - 1, 0, z3.If(x > hi, hi, z3.If(x < lo, lo, x)))


def ext(x, sg, k=2): return z3.SignExt(k, x) if sg else z3.ZeroExt(k, x)


def int_spec(op, w, sg, a, b=None, c=None):
    one = z3.BitVecVal(1, w); zero = z3.BitVecVal(0, w)
    if op in ('add', 'adds'): return T, eqto(a + b)
    if op == 'sub': return T, eqto(a - b)
    if op in ('mul', 'muls'): return T, eqto(a * b)
    if op == 'neg': return T, eqto(-a)
    if op == 'abs': return T, eqto(z3.If(a < 0, -a, a) if sg else a)
    if op == 'min': return T, eqto(z3.If(a < b, a, b) if sg else z3.If(z3.ULT(a, b), a, b))
    if op == 'max': return T, eqto(z3.If(a > b, a, b) if sg else z3.If(z3.UGT(a, b), a, b))
    if op == 'incr': return T, eqto(a + one)
    if op == 'decr': return T, eqto(a - one)
    if op == 'incr_if': return T, eqto(z3.If(b, a + one, a))
    if op == 'decr_if': return T, eqto(z3.If(b, a - one, a))
    if op == 'fma': return T, eqto(a * b + c)
    if op == 'fms': return T, eqto(a * b - c)
    if op == 'fnma': return T, eqto(c - a * b)
    if op == 'fnms': return T, eqto(-(a * b) - c)
    if op in ('div', 'mod'):
        pre = b != 0
        if sg: pre = z3.And(pre, z3.Not(z3.And(a == MIN(w), b == mask(w))))
        if op == 'div': return pre, eqto(a / b if sg else z3.UDiv(a, b))
        return pre, eqto(z3.SRem(a, b) if sg else z3.URem(a, b))
    if op == 'sign':
        if sg: return T, eqto(z3.If(a > 0, one, z3.If(a < 0, z3.BitVecVal(mask(w), w), zero)))
        return T, eqto(z3.If(a != 0, one, zero))
    if op == 'sadd':
        x = ext(a, sg) + ext(b, sg)
        return T, eqto(clamp_s(x, w) if sg else clamp_u(x, w))
    if op == 'ssub':
        x = ext(a, sg) - ext(b, sg)
        return T, eqto(clamp_s(x, w) if sg else clamp_u(x, w))
    if op == 'avg':
        x = ext(a, sg) + ext(b, sg)
        if sg: return T, eqto(z3.Extract(w - 1, 0, x / z3.BitVecVal(2, w + 2)))       # bvsdiv: toward zero
        return T, eqto(z3.Extract(w - 1, 0, z3.LShR(x, 1)))
    if op == 'avgr':
        x = ext(a, sg) + ext(b, sg)
        pre = (x >= 0) if sg else T
        return pre, eqto(z3.Extract(w - 1, 0, z3.LShR(x + 1, 1)))
    # ---- C07
    if op == 'and': return T, eqto(a & b)
    if op == 'or': return T, eqto(a | b)
    if op == 'xor': return T, eqto(a ^ b)
    if op == 'not': return T, eqto(~a)
    if op == 'andnot': return T, eqto(a & ~b)
    if op in ('shl', 'shlv'): return z3.ULT(b, w), eqto(a << b)
    if op in ('shr', 'shrv'): return z3.ULT(b, w), eqto((a >> b) if sg else z3.LShR(a, b))
    if op in ('rotl', 'rotlv'): return z3.ULT(b, w), eqto(z3.RotateLeft(a, b))
    if op in ('rotr', 'rotrv'): return z3.ULT(b, w), eqto(z3.RotateRight(a, b))
    raise KeyError(op)


def int_cmp(op, sg, a, b):
    if op == 'eq': return a == b
    if op == 'ne': return a != b
    if sg: return {'lt': a < b, 'le': a <= b, 'gt': a > b, 'ge': a >= b}[op]
    return {'lt': z3.ULT(a, b), 'le': z3.ULE(a, b), 'gt': z3.UGT(a, b), 'ge': z3.UGE(a, b)}[op]


def fp_cmp(op, a, b):
    """a, b FP terms; IEEE semantics (ordered comparisons false on NaN, != true on NaN)"""
    return {'eq': z3.fpEQ(a, b), 'ne': z3.Not(z3.fpEQ(a, b)), 'lt': z3.fpLT(a, b), 'le': z3.fpLEQ(a, b),
            'gt': z3.fpGT(a, b), 'ge': z3.fpGEQ(a, b)}[op]
