"""Scalar oracles as z3 terms.  Written once, used for batch lanes (C01..C08) and scalar overloads (C17).

Each integer spec takes (w, signed, *lane operands as BV) and returns (pre, post) where
  pre  : BoolRef | True  — the property's stated precondition on this lane's operands
  post : function(result BV) -> BoolRef
"""
import z3
from .symex import mask

T = z3.BoolVal(True)


def eqto(v): return lambda r: r == v


def MIN(w): return z3.BitVecVal(1 << (w - 1), w)
def MAX(w): return z3.BitVecVal((1 << (w - 1)) - 1, w)


def clamp_s(x, w):
    """x: (w+2)-bit signed exact value -> w-bit saturated"""
    e = x.size()
    hi = z3.BitVecVal((1 << (w - 1)) - 1, e); lo = z3.BitVecVal(-(1 << (w - 1)), e)
    return z3.Extract(w - 1, 0, z3.If(x > hi, hi, z3.If(x < lo, lo, x)))


def clamp_u(x, w):
    e = x.size()
    hi = z3.BitVecVal(mask(w), e); lo = z3.BitVecVal(0, e)
    return z3.Extract(w - 1, 0, z3.If(x > hi, hi, z3.If(x < lo, lo, x)))


def ext(x, sg, k=2): return z3.SignExt(k, x) if sg else z3.ZeroExt(k, x)


def int_spec(op, w, sg, a, b=None, c=None):
    one = z3.BitVecVal(1, w); zero = z3.BitVecVal(0, w)
    if op in ('add', 'adds'): return T, eqto(a + b)
    if op == 'sub': return T, eqto(a - b)
    if op in ('mul', 'muls'): return T, eqto(a * b)
    if op == 'neg': return T, eqto(-a)
    if op == 'abs': return T, eqto(z3.If(a < 0, -a, a) if sg else a)
    if op == 'min': return T, eqto(z3.If(a < b, a, b) if sg else z3.If(z3.ULT(a, b), a, b))
    if op == 'max': return T, eqto(z3.If(a > b, a, b) if sg else z3.If(z3.UGT(a, b), a, b))
    if op == 'incr': return T, eqto(a + one)
    if op == 'decr': return T, eqto(a - one)
    if op == 'incr_if': return T, eqto(z3.If(b, a + one, a))
    if op == 'decr_if': return T, eqto(z3.If(b, a - one, a))
    if op == 'fma': return T, eqto(a * b + c)
    if op == 'fms': return T, eqto(a * b - c)
    if op == 'fnma': return T, eqto(c - a * b)
    if op == 'fnms': return T, eqto(-(a * b) - c)
    if op in ('div', 'mod'):
        pre = b != 0
        if sg: pre = z3.And(pre, z3.Not(z3.And(a == MIN(w), b == mask(w))))
        if op == 'div': return pre, eqto(a / b if sg else z3.UDiv(a, b))
        return pre, eqto(z3.SRem(a, b) if sg else z3.URem(a, b))
    if op == 'sign':
        if sg: return T, eqto(z3.If(a > 0, one, z3.If(a < 0, z3.BitVecVal(mask(w), w), zero)))
        return T, eqto(z3.If(a != 0, one, zero))
    if op == 'sadd':
        x = ext(a, sg) + ext(b, sg)
        return T, eqto(clamp_s(x, w) if sg else clamp_u(x, w))
    if op == 'ssub':
        x = ext(a, sg) - ext(b, sg)
        return T, eqto(clamp_s(x, w) if sg else clamp_u(x, w))
    if op == 'avg':
        x = ext(a, sg) + ext(b, sg)
        if sg: return T, eqto(z3.Extract(w - 1, 0, x / z3.BitVecVal(2, w + 2)))       # bvsdiv: toward zero
        return T, eqto(z3.Extract(w - 1, 0, z3.LShR(x, 1)))
    if op == 'avgr':
        x = ext(a, sg) + ext(b, sg)
        pre = (x >= 0) if sg else T
        return pre, eqto(z3.Extract(w - 1, 0, z3.LShR(x + 1, 1)))
    # ---- C07
    if op == 'and': return T, eqto(a & b)
    if op == 'or': return T, eqto(a | b)
    if op == 'xor': return T, eqto(a ^ b)
    if op == 'not': return T, eqto(~a)
    if op == 'andnot': return T, eqto(a & ~b)
    if op in ('shl', 'shlv'): return z3.ULT(b, w), eqto(a << b)
    if op in ('shr', 'shrv'): return z3.ULT(b, w), eqto((a >> b) if sg else z3.LShR(a, b))
    if op in ('rotl', 'rotlv'): return z3.ULT(b, w), eqto(z3.RotateLeft(a, b))
    if op in ('rotr', 'rotrv'): return z3.ULT(b, w), eqto(z3.RotateRight(a, b))
    raise KeyError(op)


def int_cmp(op, sg, a, b):
    if op == 'eq': return a == b
    if op == 'ne': return a != b
    if sg: return {'lt': a < b, 'le': a <= b, 'gt': a > b, 'ge': a >= b}[op]
    return {'lt': z3.ULT(a, b), 'le': z3.ULE(a, b), 'gt': z3.UGT(a, b), 'ge': z3.UGE(a, b)}[op]


def fp_cmp(op, a, b):
    """a, b FP terms; IEEE semantics (ordered comparisons false on NaN, != true on NaN)"""
    return {'eq': z3.fpEQ(a, b), 'ne': z3.Not(z3.fpEQ(a, b)), 'lt': z3.fpLT(a, b), 'le': z3.fpLEQ(a, b),
            'gt': z3.fpGT(a, b), 'ge': z3.fpGEQ(a, b)}[op]


# ====================================================================================================== floating point
RNE = z3.RNE()


def FS(w): return z3.Float32() if w == 32 else z3.Float64()
def WIDE(w): return z3.Float64() if w == 32 else z3.FPSort(15, 64)      # a sort in which x*2^e and x/2 are exact
def fpv(b, w): return z3.fpBVToFP(b, FS(w))
def SB(w): return z3.BitVecVal(1 << (w - 1), w)
def fpc(v, w): return z3.FPVal(v, FS(w))


def pow2_wide(e, w):
    """2^e (e: signed BV of any width, assumed inside the wide sort's normal range) in WIDE(w), built from the exponent field"""
    if w == 32:
        ee = z3.SignExt(64 - e.size(), e) if e.size() < 64 else e
        return z3.fpBVToFP((ee + 1023) << 52, z3.Float64())
    ee = z3.Extract(14, 0, (z3.SignExt(32 - e.size(), e) if e.size() < 32 else z3.Extract(31, 0, e)) + 16383)
    return z3.fpFP(z3.BitVecVal(0, 1), ee, z3.BitVecVal(0, 63))


def is_int_valued(f):
    return z3.And(z3.Not(z3.fpIsNaN(f)), z3.Not(z3.fpIsInf(f)), z3.fpRoundToIntegral(z3.RTZ(), f) == f)


def RB(r, w):
    """result -> bit pattern (BV)"""
    from .symex import F
    if isinstance(r, F): r = r.bits()
    if isinstance(r, int): return z3.BitVecVal(r, w)
    return r


def RF(r, w):
    """result -> FloatingPoint term; an F object that carries an FP term is used as is (no bit-pattern round trip)"""
    from .symex import F
    if isinstance(r, F):
        return r.fp()
    if isinstance(r, int): r = z3.BitVecVal(r, w)
    return fpv(r, w)


def fp_pred(op, w, a):
    """a: BV bits -> BoolRef truth of the scalar predicate"""
    x = fpv(a, w)
    if op == 'isnan': return z3.fpIsNaN(x)
    if op == 'isinf': return z3.fpIsInf(x)
    if op == 'isfinite': return z3.And(z3.Not(z3.fpIsNaN(x)), z3.Not(z3.fpIsInf(x)))
    flint = is_int_valued(x)
    if op == 'is_flint': return flint
    xw = z3.fpFPToFP(RNE, x, WIDE(w))
    half = z3.fpMul(RNE, xw, z3.FPVal(0.5, WIDE(w)))       # exact in the wide sort
    even = z3.And(flint, is_int_valued(half))
    if op == 'is_even': return even
    if op == 'is_odd': return z3.And(flint, z3.Not(even))
    raise KeyError(op)


def fp_spec(op, w, a, b=None, c=None):
    """operands: BV bit patterns.  -> (pre, post) with post(result bits BV) -> BoolRef"""
    S = FS(w); sb = SB(w); nsb = z3.BitVecVal((1 << (w - 1)) - 1, w)
    x = fpv(a, w); y = fpv(b, w) if b is not None and b.size() == w else None; z = fpv(c, w) if c is not None else None
    R = lambda r: RF(r, w)
    B_ = lambda r: RB(r, w)
    feq = lambda r, v: R(r) == v               # SMT-LIB equality on FloatingPoint: NaN = NaN, +0 != -0
    if op in ('add', 'adds'): return T, lambda r: feq(r, z3.fpAdd(RNE, x, y))
    if op == 'sub': return T, lambda r: feq(r, z3.fpSub(RNE, x, y))
    if op in ('mul', 'muls'): return T, lambda r: feq(r, z3.fpMul(RNE, x, y))
    if op == 'div': return T, lambda r: feq(r, z3.fpDiv(RNE, x, y))
    if op == 'sqrt': return T, lambda r: feq(r, z3.fpSqrt(RNE, x))
    if op == 'incr': return T, lambda r: feq(r, z3.fpAdd(RNE, x, fpc(1.0, w)))
    if op == 'decr': return T, lambda r: feq(r, z3.fpSub(RNE, x, fpc(1.0, w)))
    if op == 'neg': return T, lambda r: B_(r)  == a ^ sb
    if op in ('abs', 'fabs'): return T, lambda r: B_(r)  == a & nsb
    if op == 'copysign': return T, lambda r: B_(r)  == (a & nsb) | (b & sb)
    if op == 'bitofsign': return T, lambda r: B_(r)  == a & sb
    if op == 'and': return T, lambda r: B_(r)  == a & b
    if op == 'or': return T, lambda r: B_(r)  == a | b
    if op == 'xor': return T, lambda r: B_(r)  == a ^ b
    if op == 'not': return T, lambda r: B_(r)  == ~a
    if op == 'andnot': return T, lambda r: B_(r)  == a & ~b
    if op in ('fma', 'fms', 'fnma', 'fnms'):
        nx = z3.fpNeg(x); ny = z3.fpNeg(y); nz = z3.fpNeg(z)
        p = z3.fpMul(RNE, x, y); np_ = [z3.fpNeg(p), z3.fpMul(RNE, nx, y), z3.fpMul(RNE, x, ny)]     # three spellings of -(x*y): identical IEEE values
        # every spelling below denotes the same IEEE value as the first of its group (negation commutes exactly with mul; a-b = a+(-b));
        # listing them lets the term simplifier recognise the kernel's own spelling, anything else falls to the FP solver
        fused = {'fma': [z3.fpFMA(RNE, x, y, z)], 'fms': [z3.fpFMA(RNE, x, y, nz)],
                 'fnma': [z3.fpFMA(RNE, nx, y, z), z3.fpFMA(RNE, x, ny, z)], 'fnms': [z3.fpFMA(RNE, nx, y, nz), z3.fpFMA(RNE, x, ny, nz)]}[op]
        unf = {'fma': [z3.fpAdd(RNE, p, z)], 'fms': [z3.fpSub(RNE, p, z), z3.fpAdd(RNE, p, nz)],
               'fnma': [z3.fpAdd(RNE, q, z) for q in np_] + [z3.fpSub(RNE, z, p)],
               'fnms': [z3.fpSub(RNE, q, z) for q in np_] + [z3.fpAdd(RNE, q, nz) for q in np_]}[op]
        return T, lambda r: z3.Or(*[feq(r, v) for v in fused + unf])
    if op in ('min', 'max'):
        pre = z3.And(z3.Not(z3.fpIsNaN(x)), z3.Not(z3.fpIsNaN(y)))
        le = (lambda u, v: z3.fpLEQ(u, v)) if op == 'min' else (lambda u, v: z3.fpGEQ(u, v))
        return pre, lambda r: z3.And(z3.Or(B_(r) == a, B_(r) == b), le(R(r), x), le(R(r), y))
    if op == 'sign':
        one = fpc(1.0, w)
        want = z3.If(z3.fpIsNaN(x), x, z3.If(z3.fpGT(x, fpc(0.0, w)), one, z3.If(z3.fpLT(x, fpc(0.0, w)), z3.fpNeg(one), fpc(0.0, w))))
        return T, lambda r: z3.If(z3.fpIsNaN(x), z3.fpIsNaN(R(r)), z3.fpEQ(R(r), want))
    if op == 'signnz':
        pre = z3.And(z3.Not(z3.fpIsNaN(x)), z3.Not(z3.fpIsZero(x)))
        one = z3.BitVecVal(0x3f800000 if w == 32 else 0x3ff0000000000000, w)
        return pre, lambda r: B_(r)  == (one | (a & sb))
    if op == 'nextafter':
        nan = z3.Or(z3.fpIsNaN(x), z3.fpIsNaN(y))
        up = z3.fpLT(x, y)
        # successor / predecessor on the ordered bit pattern
        step_away = a + 1; step_toward0 = a - 1
        pos = z3.Not(z3.fpIsNegative(x))
        moved = z3.If(z3.fpIsZero(x), z3.If(up, z3.BitVecVal(1, w), sb | 1), z3.If(up == pos, step_away, step_toward0))
        return T, lambda r: z3.If(nan, z3.fpIsNaN(R(r)), z3.If(z3.fpEQ(x, y), z3.fpEQ(R(r), y), B_(r) == moved))
    if op == 'ldexp':
        e = b        # signed integer of width w
        lim = 400 if w == 32 else 3000
        ec = z3.If(e > lim, z3.BitVecVal(lim, w), z3.If(e < -lim, z3.BitVecVal(-lim, w), e))
        xw = z3.fpFPToFP(RNE, x, WIDE(w))
        prod = z3.fpMul(RNE, xw, pow2_wide(ec, w))        # exact: significand of x times a power of two inside the wide range
        want = z3.fpFPToFP(RNE, prod, S)                  # one rounding
        return T, lambda r: feq(r, want)
    raise KeyError(op)


def frexp_spec(w, a, m, e):
    """m, e: result bit patterns (mantissa FP bits, exponent as signed int of width w) -> BoolRef"""
    x = fpv(a, w); M = fpv(m, w)
    fin = z3.And(z3.Not(z3.fpIsNaN(x)), z3.Not(z3.fpIsInf(x)), z3.Not(z3.fpIsZero(x)))
    lim = 400 if w == 32 else 3000
    inr = z3.And(e >= -lim, e <= lim)
    prod = z3.fpMul(RNE, z3.fpFPToFP(RNE, M, WIDE(w)), pow2_wide(e, w))
    am = z3.fpAbs(M)
    ok_fin = z3.And(inr, prod == z3.fpFPToFP(RNE, x, WIDE(w)), z3.fpGEQ(am, fpc(0.5, w)), z3.fpLT(am, fpc(1.0, w)))
    ok_zero = z3.And(m == a, e == 0)
    ok_special = z3.If(z3.fpIsNaN(x), z3.fpIsNaN(M), m == a)     # +-inf / NaN -> itself (exponent unspecified, as in C)
    return z3.If(fin, ok_fin, z3.If(z3.fpIsZero(x), ok_zero, ok_special))


ROUND_MODES = {'ceil': z3.RTP(), 'floor': z3.RTN(), 'trunc': z3.RTZ(), 'round': z3.RNA(), 'nearbyint': z3.RNE(), 'rint': z3.RNE()}


def round_spec(op, w, a):
    x = fpv(a, w)
    want = z3.fpRoundToIntegral(ROUND_MODES[op], x)
    return T, lambda r: z3.If(z3.fpIsNaN(x), z3.fpIsNaN(RF(r, w)), z3.fpEQ(RF(r, w), want))


def fp_to_int_spec(op, w, a, signed=True, dw=None):
    """nearbyint_as_int / to_int: exact integer whenever it fits the destination"""
    dw = dw or w
    x = fpv(a, w)
    mode = z3.RNE() if op == 'nearbyint_as_int' else z3.RTZ()
    rx = z3.fpRoundToIntegral(mode, x)
    S = FS(w)
    if signed:
        lo = z3.fpSignedToFP(RNE, z3.BitVecVal(1 << (dw - 1), dw), S)          # -2^(dw-1)
        fits = z3.And(z3.Not(z3.fpIsNaN(x)), z3.fpGEQ(rx, lo), z3.fpLT(rx, z3.fpNeg(lo)))
        return fits, lambda r: RB(r, dw) == z3.fpToSBV(mode, x, z3.BitVecSort(dw))
    hi = z3.fpMul(RNE, z3.fpUnsignedToFP(RNE, z3.BitVecVal(1 << (dw - 1), dw), S), z3.FPVal(2.0, S))
    fits = z3.And(z3.Not(z3.fpIsNaN(x)), z3.fpGEQ(rx, z3.FPVal(0.0, S)), z3.fpLT(rx, hi))
    return fits, lambda r: RB(r, dw) == z3.fpToUBV(mode, x, z3.BitVecSort(dw))
