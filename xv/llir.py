"""Minimal LLVM-14 textual IR parser (typed pointers) for the subset clang -O1 emits for xsimd kernels.

Produces Module -> Function -> Block -> Instr objects.  Operands are parsed into small tuples:
  ('reg', name) ('int', value) ('fp', bits) ('null',) ('undef',) ('poison',) ('zero',)
  ('vec', [ops]) ('arr', [ops]) ('struct', [ops], packed) ('global', name)
  ('cexpr', opcode, ...)   constant expressions (getelementptr / bitcast / ptrtoint / inttoptr)
Every operand is carried together with its type: (Type, op).
"""
import re, struct


class T:
    kind = '?'


class IntT(T):
    kind = 'int'

    def __init__(s, n): s.n = n
    def __repr__(s): return 'i%d' % s.n
    def __eq__(s, o): return isinstance(o, IntT) and o.n == s.n
    def __hash__(s): return hash(('i', s.n))


class FloatT(T):
    kind = 'fp'

    def __init__(s, n): s.n = n
    def __repr__(s): return {16: 'half', 32: 'float', 64: 'double', 80: 'x86_fp80'}[s.n]
    def __eq__(s, o): return isinstance(o, FloatT) and o.n == s.n
    def __hash__(s): return hash(('f', s.n))


class PtrT(T):
    kind = 'ptr'

    def __init__(s, to): s.to = to
    def __repr__(s): return '%r*' % (s.to,)
    def __eq__(s, o): return isinstance(o, PtrT)
    def __hash__(s): return hash('p')


class VecT(T):
    kind = 'vec'

    def __init__(s, n, el): s.n = n; s.el = el
    def __repr__(s): return '<%d x %r>' % (s.n, s.el)
    def __eq__(s, o): return isinstance(o, VecT) and o.n == s.n and o.el == s.el
    def __hash__(s): return hash(('v', s.n, s.el))


class ArrT(T):
    kind = 'arr'

    def __init__(s, n, el): s.n = n; s.el = el
    def __repr__(s): return '[%d x %r]' % (s.n, s.el)


class StructT(T):
    kind = 'struct'

    def __init__(s, fields, packed=False, name=None): s.fields = fields; s.packed = packed; s.name = name
    def __repr__(s): return s.name or ('{%s}' % ', '.join(map(repr, s.fields)))


class VoidT(T):
    kind = 'void'
    def __repr__(s): return 'void'


class FuncT(T):
    kind = 'func'

    def __init__(s, ret, args, vararg): s.ret = ret; s.args = args; s.vararg = vararg
    def __repr__(s): return '%r (%s)' % (s.ret, ', '.join(map(repr, s.args)))


class OtherT(T):
    def __init__(s, k): s.kind = k
    def __repr__(s): return s.kind


TOK = re.compile(r'''
   \s+ | ;[^\n]*
 | (?P<str>c?"(?:[^"\\]|\\.)*")
 | (?P<lid>%(?:[-a-zA-Z$._0-9]+|"(?:[^"\\]|\\.)*"))
 | (?P<gid>@(?:[-a-zA-Z$._0-9]+|"(?:[^"\\]|\\.)*"))
 | (?P<md>![-a-zA-Z$._0-9]*)
 | (?P<attr>\#\d+)
 | (?P<num>-?\d+\.\d*(?:[eE][-+]?\d+)?|0x[KLMHR]?[0-9a-fA-F]+|-?\d+)
 | (?P<word>[a-zA-Z_$.][-a-zA-Z$._0-9]*)
 | (?P<dots>\.\.\.)
 | (?P<p>[()\[\]{}<>,=*:|])
''', re.X)


def tokenize(s):
    out = []
    pos = 0
    n = len(s)
    while pos < n:
        m = TOK.match(s, pos)
        if not m:
            raise SyntaxError('tokenize: %r' % s[pos:pos + 40])
        pos = m.end()
        k = m.lastgroup
        if k is None:
            continue
        out.append((k, m.group(k)))
    return out


class Instr:
    __slots__ = ('op', 'res', 'ty', 'ops', 'extra', 'text')

    def __init__(s, op, res, ty, ops, extra, text):
        s.op = op; s.res = res; s.ty = ty; s.ops = ops; s.extra = extra; s.text = text

    def __repr__(s): return s.text


class Block:
    def __init__(s, name):
        s.name = name; s.instrs = []; s.phis = []
        s.succs = []


class Function:
    def __init__(s, name, ret, params, attrs=''):
        s.name = name; s.ret = ret; s.params = params  # [(type, name, attrs)]
        s.blocks = {}; s.order = []; s.attrs = attrs
        s.text = []

    def entry(s): return s.order[0]


class Module:
    def __init__(s):
        s.types = {}; s.globals = {}; s.funcs = {}; s.decls = {}; s.datalayout = ''


PARAM_ATTRS = {'noundef', 'nocapture', 'readonly', 'readnone', 'writeonly', 'nonnull', 'signext', 'zeroext',
               'noalias', 'returned', 'inreg', 'immarg', 'nofree', 'nest', 'swiftself', 'inalloca', 'nofpclass'}
FMF = {'fast', 'nnan', 'ninf', 'nsz', 'arcp', 'contract', 'reassoc', 'afn'}
BINOPS = {'add', 'sub', 'mul', 'udiv', 'sdiv', 'urem', 'srem', 'shl', 'lshr', 'ashr', 'and', 'or', 'xor'}
FBINOPS = {'fadd', 'fsub', 'fmul', 'fdiv', 'frem'}
CASTS = {'trunc', 'zext', 'sext', 'bitcast', 'fptosi', 'fptoui', 'sitofp', 'uitofp', 'fpext', 'fptrunc',
         'ptrtoint', 'inttoptr', 'addrspacecast'}


class Parser:
    def __init__(s, mod, toks):
        s.mod = mod; s.t = toks; s.i = 0

    def peek(s, k=0):
        return s.t[s.i + k] if s.i + k < len(s.t) else ('eof', '')

    def next(s):
        x = s.t[s.i]; s.i += 1; return x

    def accept(s, v):
        if s.i < len(s.t) and s.t[s.i][1] == v:
            s.i += 1; return True
        return False

    def expect(s, v):
        x = s.next()
        if x[1] != v:
            raise SyntaxError('expected %r got %r near %r' % (v, x, s.t[max(0, s.i - 6):s.i + 4]))

    def eof(s): return s.i >= len(s.t)

    # ---- types
    def type(s):
        k, v = s.next()
        if k == 'word':
            if v[0] == 'i' and v[1:].isdigit():
                ty = IntT(int(v[1:]))
            elif v == 'float': ty = FloatT(32)
            elif v == 'double': ty = FloatT(64)
            elif v == 'half': ty = FloatT(16)
            elif v == 'x86_fp80': ty = FloatT(80)
            elif v == 'void': ty = VoidT()
            elif v == 'ptr': ty = PtrT(IntT(8))
            elif v in ('label', 'metadata', 'token', 'x86_mmx', 'opaque'): ty = OtherT(v)
            else: raise SyntaxError('type? %r' % v)
        elif k == 'lid':
            name = v
            ty = s.mod.types.get(name)
            if ty is None:
                ty = StructT([], name=name); s.mod.types[name] = ty
        elif v == '<':
            if s.accept('{'):
                fields = s.fields('}'); s.expect('>')
                ty = StructT(fields, packed=True)
            else:
                n = int(s.next()[1]); s.expect('x'); el = s.type(); s.expect('>')
                ty = VecT(n, el)
        elif v == '[':
            n = int(s.next()[1]); s.expect('x'); el = s.type(); s.expect(']')
            ty = ArrT(n, el)
        elif v == '{':
            ty = StructT(s.fields('}'))
        else:
            raise SyntaxError('type? %r %r' % (k, v))
        while True:
            if s.accept('*'):
                ty = PtrT(ty)
            elif s.peek()[1] == 'addrspace':
                s.next(); s.expect('('); s.next(); s.expect(')')
            elif s.peek()[1] == '(' and not isinstance(ty, OtherT):
                # function type
                s.next(); args = []; va = False
                while not s.accept(')'):
                    if s.accept('...'): va = True
                    else: args.append(s.type())
                    s.accept(',')
                ty = FuncT(ty, args, va)
            else:
                break
        return ty

    def fields(s, close):
        fs = []
        while not s.accept(close):
            fs.append(s.type()); s.accept(',')
        return fs

    # ---- values
    def value(s, ty):
        k, v = s.peek()
        if k == 'lid': s.next(); return ('reg', v)
        if k == 'gid': s.next(); return ('global', v)
        if k == 'num':
            s.next()
            if isinstance(ty, FloatT): return ('fp', fpbits(v, ty.n))
            return ('int', int(v) & ((1 << ty.n) - 1) if isinstance(ty, IntT) else int(v))
        if k == 'word':
            if v == 'true': s.next(); return ('int', 1)
            if v == 'false': s.next(); return ('int', 0)
            if v == 'null': s.next(); return ('null',)
            if v == 'undef': s.next(); return ('undef',)
            if v == 'poison': s.next(); return ('poison',)
            if v == 'zeroinitializer': s.next(); return ('zero',)
            if v in ('getelementptr', 'bitcast', 'ptrtoint', 'inttoptr', 'addrspacecast', 'trunc', 'zext', 'sext',
                     'add', 'sub', 'mul', 'and', 'or', 'xor', 'shl', 'lshr', 'icmp', 'select'):
                return s.cexpr()
            if v == 'c':
                pass
        if k == 'str' and v.startswith('c"'):
            s.next(); return ('arr', [(IntT(8), ('int', b)) for b in cstring(v[2:-1])])
        if v == '<':
            s.next()
            if s.accept('{'):
                els = s.tvlist('}'); s.expect('>')
                return ('struct', els, True)
            els = s.tvlist('>'); return ('vec', els)
        if v == '[':
            s.next(); return ('arr', s.tvlist(']'))
        if v == '{':
            s.next(); return ('struct', s.tvlist('}'), False)
        raise SyntaxError('value? %r %r near %r' % (k, v, s.t[max(0, s.i - 8):s.i + 6]))

    def tvlist(s, close):
        els = []
        while not s.accept(close):
            els.append(s.tv()); s.accept(',')
        return els

    def tv(s):
        ty = s.type()
        while s.peek()[0] == 'word' and (s.peek()[1] in PARAM_ATTRS or s.peek()[1] in ('align', 'dereferenceable', 'dereferenceable_or_null', 'byval', 'sret', 'elementtype')):
            w = s.next()[1]
            if w == 'align': s.next()
            elif w in ('dereferenceable', 'dereferenceable_or_null', 'byval', 'sret', 'elementtype'):
                s.expect('(');
                depth = 1
                while depth:
                    x = s.next()[1]
                    if x == '(': depth += 1
                    elif x == ')': depth -= 1
        return (ty, s.value(ty))

    def cexpr(s):
        op = s.next()[1]
        if op == 'getelementptr':
            inb = s.accept('inbounds'); s.accept('inrange')
            s.expect('('); sty = s.type(); s.expect(',')
            ops = []
            while not s.accept(')'):
                s.accept('inrange'); ops.append(s.tv()); s.accept(',')
            return ('cexpr', 'getelementptr', sty, ops)
        if op in CASTS:
            s.expect('('); a = s.tv(); s.expect('to'); ty = s.type(); s.expect(')')
            return ('cexpr', op, a, ty)
        if op in ('icmp',):
            pred = s.next()[1]; s.expect('('); a = s.tv(); s.expect(','); b = s.tv(); s.expect(')')
            return ('cexpr', 'icmp', pred, a, b)
        if op == 'select':
            s.expect('('); a = s.tv(); s.expect(','); b = s.tv(); s.expect(','); c = s.tv(); s.expect(')')
            return ('cexpr', 'select', a, b, c)
        while s.peek()[1] in ('nuw', 'nsw', 'exact'): s.next()
        s.expect('('); a = s.tv(); s.expect(','); b = s.tv(); s.expect(')')
        return ('cexpr', op, a, b)


def cstring(body):
    out = []; i = 0
    while i < len(body):
        if body[i] == '\\':
            out.append(int(body[i + 1:i + 3], 16)); i += 3
        else:
            out.append(ord(body[i])); i += 1
    return out


def fpbits(tok, n):
    if tok.startswith('0x'):
        h = tok[2:]
        if h[0] in 'KLMHR':
            if h[0] == 'K' and n == 80: return int(h[1:], 16)
            if h[0] == 'H': return int(h[1:], 16)
            raise SyntaxError('fp const ' + tok)
        d = int(h, 16)
        if n == 64: return d
        f = struct.unpack('<d', struct.pack('<Q', d))[0]
    else:
        f = float(tok)
        if n == 64: return struct.unpack('<Q', struct.pack('<d', f))[0]
    if n == 32: return struct.unpack('<I', struct.pack('<f', f))[0]
    if n == 16: return struct.unpack('<H', struct.pack('<e', f))[0]
    raise SyntaxError('fp width')


def parse_module(text):
    mod = Module()
    lines = text.split('\n')
    i = 0
    n = len(lines)
    # first pass: named types (may be forward referenced)
    for ln in lines:
        if ln.startswith('%') and ' = type ' in ln:
            name = ln.split(' = type ', 1)[0].strip()
            mod.types[name] = StructT([], name=name)
    while i < n:
        ln = lines[i]
        if not ln or ln[0] == ';':
            i += 1; continue
        if ln.startswith('target datalayout'):
            mod.datalayout = ln.split('"')[1]
        elif ln.startswith('%') and ' = type ' in ln:
            name, rest = ln.split(' = type ', 1)
            name = name.strip()
            if rest.strip() != 'opaque':
                p = Parser(mod, tokenize(rest)); ty = p.type()
                st = mod.types[name]; st.fields = ty.fields; st.packed = ty.packed
        elif ln.startswith('@'):
            parse_global(mod, ln)
        elif ln.startswith('define '):
            j = i + 1
            while lines[j] != '}':
                j += 1
            parse_function(mod, lines[i:j])
            i = j
        elif ln.startswith('declare '):
            m = re.search(r'(@[-a-zA-Z$._0-9]+|@"[^"]*")\(', ln)
            if m: mod.decls[m.group(1)] = ln
        i += 1
    return mod


GLOBAL_WORDS = {'private', 'internal', 'linkonce_odr', 'linkonce', 'weak', 'weak_odr', 'external', 'common', 'available_externally',
                'dso_local', 'dso_preemptable', 'local_unnamed_addr', 'unnamed_addr', 'hidden', 'protected', 'default',
                'thread_local', 'externally_initialized', 'appending'}


def parse_global(mod, ln):
    name, rest = ln.split(' = ', 1)
    name = name.strip()
    p = Parser(mod, tokenize(rest))
    while p.peek()[1] in GLOBAL_WORDS:
        w = p.next()[1]
        if w == 'thread_local' and p.accept('('):
            p.next(); p.expect(')')
    if p.peek()[1] == 'alias' or p.peek()[1] == 'ifunc':
        return
    kind = p.next()[1]  # global / constant
    if kind not in ('global', 'constant'):
        return
    ty = p.type()
    init = None
    if not p.eof() and p.peek()[1] != ',':
        try:
            init = p.value(ty)
        except SyntaxError:
            init = None
    align = None
    m = re.search(r', align (\d+)', rest)
    if m: align = int(m.group(1))
    mod.globals[name] = dict(name=name, const=(kind == 'constant'), ty=ty, init=init, align=align)


def parse_function(mod, lines):
    hdr = re.sub(r' personality .*\{$', ' {', lines[0])
    m = re.match(r'define (.*?)(@[-a-zA-Z$._0-9]+|@"[^"]*")\((.*)\)([^()]*)\{$', hdr)
    if not m:
        raise SyntaxError('define? ' + hdr)
    pre, name, params, post = m.groups()
    p = Parser(mod, tokenize(pre))
    while p.peek()[0] == 'word' and (p.peek()[1] in GLOBAL_WORDS or p.peek()[1] in PARAM_ATTRS or p.peek()[1] in ('noundef', 'fastcc', 'ccc', 'coldcc', 'x86_vectorcallcc', 'x86_regcallcc')):
        p.next()
    while True:
        # return attributes such as dereferenceable(N) / align N / nonnull
        w = p.peek()[1]
        if w in ('align',): p.next(); p.next()
        elif w in ('dereferenceable', 'dereferenceable_or_null'):
            p.next(); p.expect('('); p.next(); p.expect(')')
        elif p.peek()[0] == 'word' and w in PARAM_ATTRS: p.next()
        else: break
    ret = p.type()
    pp = Parser(mod, tokenize(params))
    plist = []
    while not pp.eof():
        if pp.accept('...'):
            break
        ty = pp.type(); attrs = []
        while pp.peek()[0] == 'word':
            w = pp.next()[1]; attrs.append(w)
            if w == 'align': attrs.append(pp.next()[1])
            elif pp.peek()[1] == '(':
                depth = 0
                while True:
                    x = pp.next()[1]
                    if x == '(': depth += 1
                    elif x == ')':
                        depth -= 1
                        if depth == 0: break
        pname = None
        if pp.peek()[0] == 'lid': pname = pp.next()[1]
        plist.append((ty, pname, attrs))
        pp.accept(',')
    # unnamed params are numbered %0..; entry block takes the next number
    cnt = 0
    plist2 = []
    for ty, pname, attrs in plist:
        if pname is None:
            pname = '%%%d' % cnt; cnt += 1
        elif pname[1:].isdigit():
            cnt = int(pname[1:]) + 1
        plist2.append((ty, pname, attrs))
    f = Function(name, ret, plist2, post)
    f.text = lines
    cur = None
    # join multi-line switch instructions
    joined = []; pend = None
    for ln in lines[1:]:
        if pend is not None:
            pend += ' ' + ln.strip()
            if ln.strip() == ']':
                joined.append(pend); pend = None
            continue
        if ln.strip().startswith('switch ') and ln.rstrip().endswith('['):
            pend = ln.rstrip(); continue
        joined.append(ln)
    for ln in joined:
        s = ln.strip()
        if not s or s[0] == ';':
            continue
        m = re.match(r'^([-a-zA-Z$._0-9]+|"[^"]*"):', ln)
        if m and not ln.startswith(' '):
            cur = Block('%' + m.group(1)); f.blocks[cur.name] = cur; f.order.append(cur.name)
            continue
        if cur is None:
            cur = Block('%%%d' % cnt); f.blocks[cur.name] = cur; f.order.append(cur.name)
        ins = parse_instr(mod, s)
        if ins.op == 'phi': cur.phis.append(ins)
        else: cur.instrs.append(ins)
    for b in f.blocks.values():
        t = b.instrs[-1]
        if t.op == 'br':
            b.succs = [o for o in t.extra['labels']]
        elif t.op == 'switch':
            b.succs = [t.extra['default']] + [l for _, l in t.extra['cases']]
        elif t.op == 'invoke':
            b.succs = [t.extra['normal'], t.extra['unwind']]
        else:
            b.succs = []
    mod.funcs[name] = f
    return f


def strip_md(p):
    """drop trailing ', !md !n' pieces and return remaining token list end index"""
    pass


def parse_instr(mod, s):
    toks = tokenize(s)
    # cut metadata attachments: ", !tbaa !5" etc.
    for idx, (k, v) in enumerate(toks):
        if k == 'md' and idx > 0 and toks[idx - 1][1] == ',':
            toks = toks[:idx - 1]
            break
    p = Parser(mod, toks)
    res = None
    if p.peek()[0] == 'lid' and p.peek(1)[1] == '=':
        res = p.next()[1]; p.next()
    op = p.next()[1]
    ex = {}
    if op in ('tail', 'musttail', 'notail'):
        op = p.next()[1]
    if op in BINOPS:
        flags = []
        while p.peek()[1] in ('nuw', 'nsw', 'exact'): flags.append(p.next()[1])
        ty = p.type(); a = p.value(ty); p.expect(','); b = p.value(ty)
        return Instr(op, res, ty, [(ty, a), (ty, b)], {'flags': flags}, s)
    if op in FBINOPS or op == 'fneg':
        flags = []
        while p.peek()[1] in FMF: flags.append(p.next()[1])
        ty = p.type(); a = p.value(ty)
        ops = [(ty, a)]
        if op != 'fneg':
            p.expect(','); ops.append((ty, p.value(ty)))
        return Instr(op, res, ty, ops, {'fmf': flags}, s)
    if op in ('icmp', 'fcmp'):
        flags = []
        while p.peek()[1] in FMF: flags.append(p.next()[1])
        pred = p.next()[1]; ty = p.type(); a = p.value(ty); p.expect(','); b = p.value(ty)
        rty = VecT(ty.n, IntT(1)) if isinstance(ty, VecT) else IntT(1)
        return Instr(op, res, rty, [(ty, a), (ty, b)], {'pred': pred, 'fmf': flags}, s)
    if op == 'select':
        flags = []
        while p.peek()[1] in FMF: flags.append(p.next()[1])
        c = p.tv(); p.expect(','); a = p.tv(); p.expect(','); b = p.tv()
        return Instr(op, res, a[0], [c, a, b], {'fmf': flags}, s)
    if op in CASTS:
        a = p.tv(); p.expect('to'); ty = p.type()
        return Instr(op, res, ty, [a], {}, s)
    if op == 'freeze':
        a = p.tv(); return Instr(op, res, a[0], [a], {}, s)
    if op == 'shufflevector':
        a = p.tv(); p.expect(','); b = p.tv(); p.expect(','); m = p.tv()
        n = m[0].n
        return Instr(op, res, VecT(n, a[0].el), [a, b, m], {}, s)
    if op == 'extractelement':
        a = p.tv(); p.expect(','); i = p.tv()
        return Instr(op, res, a[0].el, [a, i], {}, s)
    if op == 'insertelement':
        a = p.tv(); p.expect(','); e = p.tv(); p.expect(','); i = p.tv()
        return Instr(op, res, a[0], [a, e, i], {}, s)
    if op == 'extractvalue':
        a = p.tv(); idx = []
        while p.accept(','): idx.append(int(p.next()[1]))
        ty = a[0]
        for k in idx: ty = ty.fields[k] if isinstance(ty, StructT) else ty.el
        return Instr(op, res, ty, [a], {'idx': idx}, s)
    if op == 'insertvalue':
        a = p.tv(); p.expect(','); e = p.tv(); idx = []
        while p.accept(','): idx.append(int(p.next()[1]))
        return Instr(op, res, a[0], [a, e], {'idx': idx}, s)
    if op == 'alloca':
        p.accept('inalloca')
        ty = p.type(); cnt = None; align = None
        while p.accept(','):
            if p.accept('align'): align = int(p.next()[1])
            elif p.peek()[1] == 'addrspace': p.next(); p.expect('('); p.next(); p.expect(')')
            else: cnt = p.tv()
        return Instr(op, res, PtrT(ty), [cnt] if cnt else [], {'ty': ty, 'align': align}, s)
    if op == 'load':
        atomic = p.accept('atomic'); p.accept('volatile')
        ty = p.type(); p.expect(','); ptr = p.tv(); align = None
        while not p.eof():
            if p.accept(','): continue
            if p.accept('align'): align = int(p.next()[1])
            else: p.next()
        return Instr(op, res, ty, [ptr], {'align': align}, s)
    if op == 'store':
        atomic = p.accept('atomic'); p.accept('volatile')
        v = p.tv(); p.expect(','); ptr = p.tv(); align = None
        while not p.eof():
            if p.accept(','): continue
            if p.accept('align'): align = int(p.next()[1])
            else: p.next()
        return Instr(op, None, VoidT(), [v, ptr], {'align': align}, s)
    if op == 'getelementptr':
        inb = p.accept('inbounds')
        sty = p.type(); p.expect(',')
        ops = [p.tv()]
        while p.accept(','): ops.append(p.tv())
        return Instr(op, res, PtrT(IntT(8)), ops, {'sty': sty, 'inbounds': inb}, s)
    if op == 'phi':
        flags = []
        while p.peek()[1] in FMF: flags.append(p.next()[1])
        ty = p.type(); inc = []
        while True:
            p.expect('['); v = p.value(ty); p.expect(','); l = p.next()[1]; p.expect(']')
            inc.append((v, l))
            if not p.accept(','): break
        return Instr(op, res, ty, [], {'inc': inc}, s)
    if op == 'br':
        if p.accept('label'):
            return Instr(op, None, VoidT(), [], {'labels': [p.next()[1]]}, s)
        c = p.tv(); p.expect(','); p.expect('label'); a = p.next()[1]; p.expect(','); p.expect('label'); b = p.next()[1]
        return Instr(op, None, VoidT(), [c], {'labels': [a, b]}, s)
    if op == 'switch':
        v = p.tv(); p.expect(','); p.expect('label'); d = p.next()[1]; p.expect('[')
        cases = []
        while not p.accept(']'):
            c = p.tv(); p.expect(','); p.expect('label'); cases.append((c, p.next()[1]))
        return Instr(op, None, VoidT(), [v], {'default': d, 'cases': cases}, s)
    if op == 'ret':
        if p.accept('void'): return Instr(op, None, VoidT(), [], {}, s)
        return Instr(op, None, VoidT(), [p.tv()], {}, s)
    if op == 'unreachable':
        return Instr(op, None, VoidT(), [], {}, s)
    if op in ('call', 'invoke'):
        flags = []
        while p.peek()[0] == 'word' and (p.peek()[1] in FMF or p.peek()[1] in PARAM_ATTRS or p.peek()[1] in ('fastcc', 'ccc', 'coldcc', 'x86_vectorcallcc', 'x86_regcallcc', 'align', 'dereferenceable', 'dereferenceable_or_null')):
            w = p.next()[1]
            if w in FMF: flags.append(w)
            if w == 'align': p.next()
            if w.startswith('dereferenceable'): p.expect('('); p.next(); p.expect(')')
        rty = p.type()
        if isinstance(rty, FuncT): rty = rty.ret
        elif isinstance(rty, PtrT) and isinstance(rty.to, FuncT): rty = rty.to.ret
        asm = None
        if p.peek()[1] == 'asm':
            p.next()
            while p.peek()[0] == 'word': p.next()  # sideeffect, inteldialect...
            a1 = p.next()[1]; p.expect(','); a2 = p.next()[1]
            asm = (a1[1:-1], a2[1:-1]); callee = ('asm',)
        else:
            callee = p.value(PtrT(IntT(8)))
        p.expect('(')
        args = []
        while not p.accept(')'):
            args.append(p.tv()); p.accept(',')
        ex = {'callee': callee, 'asm': asm, 'fmf': flags}
        if op == 'invoke':
            while p.peek()[1] != 'to': p.next()
            p.expect('to'); p.expect('label'); ex['normal'] = p.next()[1]
            p.expect('unwind'); p.expect('label'); ex['unwind'] = p.next()[1]
        return Instr(op, res, rty, args, ex, s)
    if op == 'landingpad':
        ty = p.type(); return Instr(op, res, ty, [], {}, s)
    if op == 'resume':
        return Instr(op, None, VoidT(), [p.tv()], {}, s)
    if op == 'fence':
        return Instr(op, None, VoidT(), [], {}, s)
    if op in ('atomicrmw', 'cmpxchg', 'va_arg', 'indirectbr', 'callbr', 'catchswitch', 'catchpad', 'cleanuppad'):
        return Instr('unsupported', res, VoidT(), [], {'what': op}, s)
    raise SyntaxError('instr? ' + s)


# ---------------------------------------------------------------- layout
def sizeof(ty):
    if isinstance(ty, IntT): return (ty.n + 7) // 8
    if isinstance(ty, FloatT): return {16: 2, 32: 4, 64: 8, 80: 16}[ty.n]
    if isinstance(ty, PtrT): return 8
    if isinstance(ty, VecT):
        bits = ty.n * (ty.el.n if not isinstance(ty.el, PtrT) else 64)
        return (bits + 7) // 8
    if isinstance(ty, ArrT): return ty.n * stride(ty.el)
    if isinstance(ty, StructT):
        off = 0
        for f in ty.fields:
            if not ty.packed: off = (off + alignof(f) - 1) // alignof(f) * alignof(f)
            off += stride(f)
        if not ty.packed and ty.fields:
            a = alignof(ty); off = (off + a - 1) // a * a
        return off
    raise TypeError('sizeof %r' % (ty,))


def stride(ty):
    s = sizeof(ty); a = alignof(ty)
    return (s + a - 1) // a * a


def alignof(ty):
    if isinstance(ty, IntT):
        s = (ty.n + 7) // 8
        a = 1
        while a < s: a *= 2
        return min(a, 8) if ty.n <= 64 else 16
    if isinstance(ty, FloatT): return {16: 2, 32: 4, 64: 8, 80: 16}[ty.n]
    if isinstance(ty, PtrT): return 8
    if isinstance(ty, VecT):
        s = sizeof(ty); a = 1
        while a < s: a *= 2
        return a
    if isinstance(ty, ArrT): return alignof(ty.el)
    if isinstance(ty, StructT):
        if ty.packed or not ty.fields: return 1
        return max(alignof(f) for f in ty.fields)
    raise TypeError('alignof %r' % (ty,))


def field_offset(ty, k):
    off = 0
    for i, f in enumerate(ty.fields):
        if not ty.packed: off = (off + alignof(f) - 1) // alignof(f) * alignof(f)
        if i == k: return off
        off += stride(f)
    raise IndexError


# ---------------------------------------------------------------- CFG helpers
def postdominators(f):
    """immediate post-dominator per block; virtual exit is 'EXIT'"""
    names = f.order
    succ = {b: (list(f.blocks[b].succs) or ['EXIT']) for b in names}
    allb = set(names) | {'EXIT'}
    pd = {b: set(allb) for b in names}
    pd['EXIT'] = {'EXIT'}
    changed = True
    while changed:
        changed = False
        for b in reversed(names):
            new = None
            for s_ in succ[b]:
                new = set(pd[s_]) if new is None else (new & pd[s_])
            new = (new or set()) | {b}
            if new != pd[b]:
                pd[b] = new; changed = True
    ipd = {}
    for b in names:
        cands = pd[b] - {b}
        # the immediate post-dominator is the candidate post-dominated by all other candidates... i.e. closest
        best = None
        for c in cands:
            if all((c == d) or (d in pd[c]) for d in cands):
                best = c; break
        ipd[b] = best or 'EXIT'
    return ipd


def normalized_body(f):
    """function text with the name removed, for de-duplication"""
    body = '\n'.join(f.text[1:])
    body = re.sub(r', !\w+(\.\w+)* ![0-9]+', '', body)
    body = re.sub(r' #\d+', '', body)
    hdr = re.sub(r'@[-a-zA-Z$._0-9]+\(', '@F(', f.text[0], count=1)
    hdr = re.sub(r' #\d+', '', hdr)
    return hdr + '\n' + body
