import sys, os, argparse, importlib, subprocess
from . import engine

PROPS = {'C01': 'xv.props.c01', 'C07': 'xv.props.c07', 'C03': 'xv.props.c03', 'C13': 'xv.props.c13', 'C09': 'xv.props.c09', 'C05': 'xv.props.c05', 'C04': 'xv.props.c04', 'C18': 'xv.props.c18', 'C15': 'xv.props.c15', 'C08': 'xv.props.c08', 'C02': 'xv.props.c02', 'C06': 'xv.props.c06', 'C17': 'xv.props.c17', 'C20': 'xv.props.c20', 'C12': 'xv.props.c12', 'C16': 'xv.props.c16', 'C19': 'xv.props.c19', 'C14': 'xv.props.c14'}


def main():
    ap = argparse.ArgumentParser()
    ap.add_argument('prop')
    ap.add_argument('--tier', default=os.environ.get('VERIF_TIER') or 'quick', choices=['quick', 'thorough'])
    ap.add_argument('--replay')
    ap.add_argument('--jobs', type=int)
    ap.add_argument('--timeout', type=float)
    ap.add_argument('--keep', action='store_true')
    a = ap.parse_args()
    seed = int(os.environ.get('VERIF_SEED') or 0)
    if a.replay:
        sh = os.path.join(a.replay, 'run.sh')
        print(open(os.path.join(a.replay, 'counterexample.json')).read())
        sys.exit(subprocess.call(['sh', sh]))
    modname = PROPS[a.prop]
    P = importlib.import_module(modname)
    if hasattr(P, 'main'):
        sys.exit(P.main(a.tier, seed))
    sys.exit(engine.run_property(a.prop, P, a.tier, seed, modname, timeout=a.timeout, jobs=a.jobs, keep=a.keep))


if __name__ == '__main__':
    main()
