"""Wrapper generation + lowering to LLVM IR (regenerated from /repo on every run)."""
import os, re, subprocess, hashlib, json, shutil, tempfile, concurrent.futures as cf

REPO = os.environ.get('XV_REPO', '/repo')
CLANG = 'clang++-14'
BASEFLAGS = ['-std=c++17', '-O1', '-DNDEBUG', '-fno-vectorize', '-fno-slp-vectorize', '-fno-unroll-loops',
             '-I' + REPO + '/include', '-Wno-everything', '-ferror-limit=0']
M512 = ['-march=sapphirerapids', '-mavx512er', '-mavx512pf', '-mfma4', '-mno-amx-tile']
# 128/256-bit architectures are lowered without AVX-512 enabled, as a user of those architectures would build them (with AVX-512
# enabled, overload resolution of kernel::swizzle on batch<uint16_t, sse2..avx2> hits a hard static_assert in an avx512f overload)
M256 = ['-march=alderlake', '-mfma4', '-mno-avx512f']
CXXFLAGS = BASEFLAGS + M512


def flags_for(arch):
    if arch.startswith('emu'): return BASEFLAGS + M256
    if arch == 'scalar': return BASEFLAGS + ['-march=alderlake', '-mno-avx512f']
    return BASEFLAGS + (M512 if ARCH[arch][2] == 512 else M256)

def native_flags(arch):
    """flags for natively *executed* builds (replay, translator validation): the same as the lowering flags minus the ISA extensions this
    host lacks (with -mfma4 enabled the back end may encode llvm.fma as an FMA4 instruction -> SIGILL on Intel)"""
    return [f for f in flags_for(arch) if f not in ('-mfma4', '-mavx512er', '-mavx512pf', '-ferror-limit=0')]


# tag, C++ spelling, register bits, can the host execute it
ARCHS = [
    ('sse2', 'xsimd::sse2', 128, True), ('sse3', 'xsimd::sse3', 128, True), ('ssse3', 'xsimd::ssse3', 128, True),
    ('sse4_1', 'xsimd::sse4_1', 128, True), ('sse4_2', 'xsimd::sse4_2', 128, True),
    ('fma3_sse4_2', 'xsimd::fma3<xsimd::sse4_2>', 128, True), ('fma4', 'xsimd::fma4', 128, False),
    ('avx', 'xsimd::avx', 256, True), ('fma3_avx', 'xsimd::fma3<xsimd::avx>', 256, True),
    ('avx2', 'xsimd::avx2', 256, True), ('fma3_avx2', 'xsimd::fma3<xsimd::avx2>', 256, True),
    ('avxvnni', 'xsimd::avxvnni', 256, True),
    ('avx512f', 'xsimd::avx512f', 512, True), ('avx512cd', 'xsimd::avx512cd', 512, True),
    ('avx512dq', 'xsimd::avx512dq', 512, True), ('avx512er', 'xsimd::avx512er', 512, False),
    ('avx512bw', 'xsimd::avx512bw', 512, True), ('avx512vnni_avx512bw', 'xsimd::avx512vnni<xsimd::avx512bw>', 512, True),
    ('avx512pf', 'xsimd::avx512pf', 512, False), ('avx512ifma', 'xsimd::avx512ifma', 512, True),
    ('avx512vbmi', 'xsimd::avx512vbmi', 512, True), ('avx512vbmi2', 'xsimd::avx512vbmi2', 512, True),
    ('avx512vnni_avx512vbmi2', 'xsimd::avx512vnni<xsimd::avx512vbmi2>', 512, True),
]
ARCH = {a[0]: a for a in ARCHS}
# pseudo-architecture for the scalar overloads of xsimd_scalar.hpp (C17): built with the 256-bit flag set, no batch involved
ARCH['scalar'] = ('scalar', 'xsimd::sse2', 128, True)
# a small set that exercises every distinct kernel file at least once (quick tier of expensive properties)
CORE_ARCHS = ['sse2', 'ssse3', 'sse4_1', 'sse4_2', 'fma3_sse4_2', 'avx', 'fma3_avx', 'avx2', 'fma3_avx2', 'avx512f', 'avx512dq', 'avx512bw', 'avx512vbmi', 'avx512vbmi2']
ALL_ARCHS = [a[0] for a in ARCHS]

# tag -> (C++ type, bits, signed, class)
TYPES = {
    'i8': ('int8_t', 8, True, 'int'), 'u8': ('uint8_t', 8, False, 'int'),
    'i16': ('int16_t', 16, True, 'int'), 'u16': ('uint16_t', 16, False, 'int'),
    'i32': ('int32_t', 32, True, 'int'), 'u32': ('uint32_t', 32, False, 'int'),
    'i64': ('int64_t', 64, True, 'int'), 'u64': ('uint64_t', 64, False, 'int'),
    'f32': ('float', 32, True, 'fp'), 'f64': ('double', 64, True, 'fp'),
}
ITYPES = ['i8', 'u8', 'i16', 'u16', 'i32', 'u32', 'i64', 'u64']
FTYPES = ['f32', 'f64']
ATYPES = ITYPES + FTYPES


def is_avx512(arch): return ARCH[arch][2] == 512 if arch in ARCH else False


def lanes(ty, arch):
    if arch.startswith('emu'): return int(arch[3:]) // TYPES[ty][1]
    return ARCH[arch][2] // TYPES[ty][1]


def cpp_arch(arch):
    if arch.startswith('emu'): return 'xsimd::emulated<%s>' % arch[3:]
    return ARCH[arch][1]


def B(ty, arch): return 'xsimd::batch<%s,%s>' % (TYPES[ty][0], cpp_arch(arch))
def BB(ty, arch): return 'xsimd::batch_bool<%s,%s>' % (TYPES[ty][0], cpp_arch(arch))


class Kernel:
    """one extern "C" wrapper.  args: list of (kind, type tag) ; kinds:
         v batch register   m batch_bool register   s int   z size_t/uint64   T scalar of the element type
         p T* (mutable)     q T const*             x raw C++ parameter text (kind 'x', text)
       ret: same kinds or 'void' / 'bool' / 'u64'."""

    def __init__(s, prop, op, ty, arch, args, ret, expr, variant='', meta=None, pre=''):
        s.prop = prop; s.op = op; s.ty = ty; s.arch = arch; s.args = args; s.ret = ret; s.expr = expr
        s.variant = variant; s.meta = meta or {}; s.pre = pre
        v = ('_' + variant) if variant else ''
        s.name = 'k__%s%s__%s__%s' % (op, v, ty, arch)
        s.fname = s.meta.get('fname') or s.name      # IR function that implements this kernel (several kernels may share one wrapper)

    def cpp(s):
        ps = []; decl = []
        names = 'abcdefgh'
        for i, (kind, ty) in enumerate(s.args):
            n = names[i]
            if kind == 'v':
                ps.append('%s::register_type %s_' % (B(ty, s.arch), n)); decl.append('%s %s(%s_);' % (B(ty, s.arch), n, n))
            elif kind == 'm':
                ps.append('%s::register_type %s_' % (BB(ty, s.arch), n)); decl.append('%s %s(%s_);' % (BB(ty, s.arch), n, n))
            elif kind == 's': ps.append('int %s' % n)
            elif kind == 'z': ps.append('uint64_t %s' % n)
            elif kind == 'T': ps.append('%s %s' % (TYPES[ty][0], n))
            elif kind == 'b': ps.append('bool %s' % n)
            elif kind == 'p': ps.append('%s* %s' % (TYPES[ty][0] if ty in TYPES else ty, n))
            elif kind == 'q': ps.append('%s const* %s' % (TYPES[ty][0] if ty in TYPES else ty, n))
            elif kind == 'x': ps.append(ty)
            else: raise ValueError(kind)
        rk, rty = s.ret
        if rk == 'v': r = '%s::register_type' % B(rty, s.arch)
        elif rk == 'm': r = '%s::register_type' % BB(rty, s.arch)
        elif rk == 'T': r = TYPES[rty][0]
        elif rk == 'bool': r = 'bool'
        elif rk == 'u64': r = 'uint64_t'
        elif rk == 'void': r = 'void'
        elif rk == 'x': r = rty
        else: raise ValueError(rk)
        body = s.expr if rk == 'void' else 'return %s;' % s.expr
        return 'W %s %s(%s){ %s %s %s }' % (r, s.fname, ', '.join(ps), ' '.join(decl), s.pre, body)


PRELUDE = '''#include <xsimd/xsimd.hpp>
#include <cstdint>
#include <cstddef>
#define W extern "C" __attribute__((noinline))
'''


def _compile_tu(args):
    path, lines, extra, flags = args
    lines = list(lines)
    dropped = []
    for attempt in range(60):
        with open(path + '.cpp', 'w') as f:
            f.write(PRELUDE + '\n'.join(lines) + '\n')
        cmd = [CLANG] + flags + extra + ['-S', '-emit-llvm', path + '.cpp', '-o', path + '.ll']
        p = subprocess.run(cmd, capture_output=True, text=True)
        if p.returncode == 0:
            return path + '.ll', dropped, lines
        bad = set()
        base = os.path.basename(path + '.cpp')
        for m in re.finditer(re.escape(base) + r':(\d+):\d+: (error|note)', p.stderr):
            bad.add(int(m.group(1)))
        nprel = PRELUDE.count('\n')
        idx = sorted({b - nprel - 1 for b in bad if b - nprel - 1 >= 0 and b - nprel - 1 < len(lines)})
        if not idx:
            raise RuntimeError('compile failed without attributable line:\n' + p.stderr[:4000])
        for i in reversed(idx):
            dropped.append((lines[i], _first_error(p.stderr, i + nprel + 1, base)))
            lines[i] = '// dropped'
    raise RuntimeError('compile retry limit')


def _first_error(stderr, line, base):
    m = re.search(r'error: ([^\n]*)', stderr)
    return m.group(1)[:200] if m else ''


def lower(kernels, workdir, extra_flags=(), group=None, jobs=16, fexc=False):
    """compile kernels (grouped into TUs) -> {tu: ll path}, dropped list"""
    groups = {}
    for k in kernels:
        g = group(k) if group else k.arch
        groups.setdefault(g, []).append(k)
    jobsl = []
    for g, ks in groups.items():
        # split big groups for parallelism
        chunk = 250
        for ci in range(0, len(ks), chunk):
            sub = ks[ci:ci + chunk]
            path = os.path.join(workdir, 'tu_%s_%d' % (re.sub(r'\W', '_', g), ci // chunk))
            extra = list(extra_flags) + ([] if fexc else ['-fno-exceptions'])
            if any(k.arch.startswith('emu') for k in sub): extra.append('-DXSIMD_WITH_EMULATED=1')
            srcs = []; seen_f = set()
            for k in sub:
                if k.fname in seen_f: continue
                seen_f.add(k.fname); srcs.append(k.cpp())
            jobsl.append((path, srcs, extra, flags_for(sub[0].arch)))
    out = {}; dropped = []
    with cf.ThreadPoolExecutor(jobs) as ex:
        for (path, lines, extra, _), res in zip(jobsl, ex.map(_compile_tu, jobsl)):
            ll, dr, kept = res
            out[path] = ll
            dropped += dr
    return out, dropped
