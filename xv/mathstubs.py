"""Environment stubs shared by the elementary-function checks (C12, C13 math part, C14)."""
import z3
from .symex import F, Ptr, bv
from .llir import FloatT

REM_PIO2 = '@_ZN5xsimd6detail18__ieee754_rem_pio2EdPd'


def rem_pio2_stub(ex, st, ins, args):
    """__ieee754_rem_pio2(double x, double* y) kept out of line by the XSIMD_VERIF_HOOKS guard: a deterministic uninterpreted function
    of its argument (n, y[0], y[1]); nothing about its value is claimed (accuracy is C10/C11 territory)."""
    x, y = args
    xb = bv(x.bits(), 64)
    B64 = z3.BitVecSort(64)
    n = z3.Function('rem_pio2_n', B64, z3.BitVecSort(32))(xb)
    y0 = z3.Function('rem_pio2_y0', B64, B64)(xb); y1 = z3.Function('rem_pio2_y1', B64, B64)(xb)
    # contract (proved separately on the real body, obligation 'rem_pio2 contract'): a NaN or infinite argument gives y[0] = y[1] = NaN, n = 0
    special = z3.Extract(62, 52, xb) == 0x7ff
    D = z3.Float64()
    ex.side.append(z3.Implies(special, z3.And(z3.fpIsNaN(z3.fpBVToFP(y0, D)), z3.fpIsNaN(z3.fpBVToFP(y1, D)), n == 0)))
    ex.store(st, FloatT(64), F(64, bits=y0), y, 8)
    ex.store(st, FloatT(64), F(64, bits=y1), Ptr(y.rid, y.off + 8, getattr(y, 'hint', 0)), 8)
    return n


STUBS = {REM_PIO2: rem_pio2_stub}
