"""x86 intrinsic models (Intel SDM pseudo-code).  Every model is exercised against the silicon by the
translator-validation pass (xv.validate)."""
import re
import z3
from .llir import IntT, FloatT, PtrT, VecT, sizeof
from .symex import (F, Ptr, Unsupported, bv, mask, is_c, ite, extract, concat_le, fresh, fresh_bool, tosigned,
                    b_and, b_or, b_not, zbool, RNE, FSORT)
from .intrinsics import (shift_count_scalar, simp_c, fp_round, mxcsr_round_imm, x86_minmax, cvt_fp_to_int, addoff,
                         masked_load1, masked_store1, lanewise)


def msb(x, n):
    """sign bit of an n-bit lane -> bool"""
    if is_c(x): return bool(x >> (n - 1))
    return z3.Extract(n - 1, n - 1, x) == 1


def fbits(x):
    return x.bits() if isinstance(x, F) else x


def lane_bits(ty, v):
    """vector value -> list of (bits, width) per lane"""
    if isinstance(ty.el, FloatT): return [(x.bits(), ty.el.n) for x in v]
    return [(x, ty.el.n) for x in v]


def from_lane_bits(ty, bits):
    if isinstance(ty.el, FloatT): return [F(ty.el.n, bits=b) for b in bits]
    return bits


def apply_mask(ex, rty, res, src, k):
    """AVX512 merge masking: k is an iN integer or <N x i1>"""
    if isinstance(k, list): kb = k
    else:
        n = rty.n
        if is_c(k): kb = [bool((k >> i) & 1) for i in range(n)]
        else: kb = [z3.Extract(i, i, k) == 1 for i in range(n)]
    return [ex.select1(kb[i], rty.el, res[i], src[i]) for i in range(rty.n)]


def call(ex, st, ins, nm, args, rty, aty):
    n_ = nm[len('llvm.x86.'):]
    # ---------------- shifts by scalar / immediate count
    m = re.match(r'(sse2|avx2|avx512)\.(psll|psrl|psra)i\.(w|d|q)(\.\d+)?$', n_)
    if m:
        n = rty.el.n; kind = {'psll': 'l', 'psrl': 'r', 'psra': 'a'}[m.group(2)]
        cnt = args[1]; cw = aty[1].n
        return [shift_count_scalar(n, x, cnt, cw, kind) for x in args[0]]
    m = re.match(r'(sse2|avx2|avx512)\.(psll|psrl|psra)\.(w|d|q)(\.\d+)?$', n_)
    if m:
        n = rty.el.n; kind = {'psll': 'l', 'psrl': 'r', 'psra': 'a'}[m.group(2)]
        cv = args[1]; cn = aty[1].el.n
        # count = low 64 bits of the count register
        parts = [(c, cn) for c in cv[:64 // cn]]
        cnt = concat_le(parts)
        return [shift_count_scalar(n, x, cnt, 64, kind) for x in args[0]]
    m = re.match(r'(avx2|avx512)\.(psllv|psrlv|psrav)\.?(w|d|q)?(\.\d+)?$', n_)
    if m:
        n = rty.el.n; kind = {'psllv': 'l', 'psrlv': 'r', 'psrav': 'a'}[m.group(2)]
        return [shift_count_scalar(n, x, c, n, kind) for x, c in zip(args[0], args[1])]
    m = re.match(r'(avx512)\.(prolv|prorv|prol|pror)\.(d|q)\.(\d+)$', n_)
    if m:
        n = rty.el.n; left = 'prol' in m.group(2)
        def rot(x, c):
            X = bv(x, n); C = bv(c, n) if not isinstance(c, int) else z3.BitVecVal(c, n)
            return simp_c(z3.RotateLeft(X, C) if left else z3.RotateRight(X, C), x, c)
        if m.group(2).endswith('v'): return [rot(x, c) for x, c in zip(args[0], args[1])]
        return [rot(x, args[1] if aty[1].n == n else (args[1] & mask(n) if is_c(args[1]) else z3.ZeroExt(n - aty[1].n, args[1]))) for x in args[0]]
    # ---------------- averages
    m = re.match(r'(sse2|avx2|avx512)\.pavg\.(b|w)(\.\d+)?$', n_)
    if m:
        n = rty.el.n
        def avg(a, b):
            r = z3.Extract(n, 1, z3.ZeroExt(1, bv(a, n)) + z3.ZeroExt(1, bv(b, n)) + 1)
            return simp_c(r, a, b)
        return [avg(a, b) for a, b in zip(args[0], args[1])]
    # ---------------- blends
    m = re.match(r'(sse41|avx2)\.pblendvb$', n_)
    if m:
        return [ite(msb(k, 8), b, a, 8) for a, b, k in zip(*args)]
    m = re.match(r'(sse41\.blendvp(s|d)|avx\.blendv\.p(s|d)\.256)$', n_)
    if m:
        n = rty.el.n
        return [ex.select1(msb(k.bits(), n), rty.el, b, a) for a, b, k in zip(*args)]
    # ---------------- tests
    m = re.match(r'(sse41|avx)\.ptest(z|c|nzc)(\.256)?$', n_)
    if m:
        a = concat_le([(x, aty[0].el.n) for x in args[0]]); b = concat_le([(x, aty[1].el.n) for x in args[1]])
        w = aty[0].n * aty[0].el.n
        A, B = bv(a, w), bv(b, w)
        zf = (A & B) == 0; cf = (~A & B) == 0
        r = {'z': zf, 'c': cf, 'nzc': z3.And(z3.Not(zf), z3.Not(cf))}[m.group(2)]
        return z3.If(r, z3.BitVecVal(1, 32), z3.BitVecVal(0, 32))
    m = re.match(r'avx\.vtest(z|c|nzc)\.p(s|d)(\.256)?$', n_)
    if m:
        n = aty[0].el.n
        sa = [msb(x.bits(), n) for x in args[0]]; sb = [msb(x.bits(), n) for x in args[1]]
        zf = b_not(or_all([b_and(x, y) for x, y in zip(sa, sb)]))
        cf = b_not(or_all([b_and(b_not(x), y) for x, y in zip(sa, sb)]))
        r = {'z': zf, 'c': cf, 'nzc': b_and(b_not(zf), b_not(cf))}[m.group(1)]
        return ite(r, 1, 0, 32) if not isinstance(r, bool) else int(r)
    # ---------------- movemask
    m = re.match(r'(sse2\.pmovmskb\.128|avx2\.pmovmskb|sse\.movmsk\.ps|sse2\.movmsk\.pd|avx\.movmsk\.p(s|d)\.256)$', n_)
    if m:
        n = aty[0].el.n
        bits = [msb(fbits(x), n) for x in args[0]]
        parts = [(ite(b, 1, 0, 1) if not isinstance(b, bool) else int(b), 1) for b in bits]
        r = concat_le(parts)
        k = len(bits)
        return r if is_c(r) else z3.ZeroExt(32 - k, r)
    # ---------------- byte shuffles / permutes
    m = re.match(r'(ssse3\.pshuf\.b\.128|avx2\.pshuf\.b|avx512\.pshuf\.b\.512)$', n_)
    if m:
        a, idx = args; out = []
        for i in range(len(a)):
            base = (i // 16) * 16
            k = idx[i]
            if is_c(k):
                out.append(0 if k & 0x80 else a[base + (k & 15)])
            else:
                sel = z3.Extract(3, 0, k)
                r = a[base + 15]
                for j in reversed(range(15)):
                    r = ite(sel == j, a[base + j], r, 8)
                out.append(z3.If(z3.Extract(7, 7, k) == 1, z3.BitVecVal(0, 8), bv(r, 8)))
        return out
    m = re.match(r'avx\.vpermilvar\.p(s|d)(\.256)?$', n_)
    if m:
        a, idx = args; n = rty.el.n; per = 128 // n; out = []
        for i in range(len(a)):
            base = (i // per) * per
            k = idx[i]
            if n == 32: sel = extract(1, 0, k); nsel = 4
            else: sel = extract(1, 1, k); nsel = 2
            out.append(pick(ex, rty.el, [a[base + j] for j in range(nsel)], sel))
        return out
    m = re.match(r'avx2\.perm(d|ps)$', n_)
    if m:
        a, idx = args
        if m.group(1) == 'ps' and isinstance(aty[1].el, FloatT): raise Unsupported(nm)
        return [pick(ex, rty.el, a, extract(2, 0, k)) for k in idx]
    m = re.match(r'avx512\.permvar\.(si|sf|di|df|hi|qi)\.(\d+)$', n_)
    if m:
        a, idx = args; nl = len(a); lg = nl.bit_length() - 1
        return [pick(ex, rty.el, a, extract(lg - 1, 0, k)) for k in idx]
    m = re.match(r'avx512\.vpermi2var\.(d|q|ps|pd|hi|qi)\.(\d+)$', n_)
    if m:
        a, idx, b = args; nl = len(a); lg = nl.bit_length() - 1
        tab = list(a) + list(b)
        return [pick(ex, rty.el, tab, extract(lg, 0, fbits(k))) for k in idx]
    # ---------------- horizontal add/sub
    m = re.match(r'(ssse3\.ph(add|sub)\.(w|d|sw)\.128|avx2\.ph(add|sub)\.(w|d|sw))$', n_)
    if m:
        a, b = args; n = rty.el.n; per = 128 // n
        sub = 'sub' in n_; sat = n_.rstrip('.128').endswith('sw')
        out = []
        for blk in range(len(a) // per):
            for src in (a, b):
                for j in range(per // 2):
                    x, y = src[blk * per + 2 * j], src[blk * per + 2 * j + 1]
                    if sat:
                        from .intrinsics import sat_add, sat_sub
                        out.append((sat_sub if sub else sat_add)(n, x, y, True))
                    else:
                        out.append(ex.int_binop(st, 'sub' if sub else 'add', n, x, y, []))
        return out
    m = re.match(r'(sse3\.h(add|sub)\.p(s|d)|avx\.h(add|sub)\.p(s|d)\.256)$', n_)
    if m:
        a, b = args; n = rty.el.n; per = 128 // n
        op = 'fsub' if 'hsub' in n_ else 'fadd'
        out = []
        for blk in range(len(a) // per):
            for src in (a, b):
                for j in range(per // 2):
                    out.append(ex.fp_arith(st, op, n, [src[blk * per + 2 * j], src[blk * per + 2 * j + 1]]))
        return out
    # ---------------- fp min/max
    m = re.match(r'(sse|sse2|avx|avx512)\.(min|max)\.p(s|d)(\.\d+)?$', n_)
    if m:
        return [x86_minmax(ex, a, b, m.group(2) == 'min') for a, b in zip(args[0], args[1])]
    m = re.match(r'(sse|sse2)\.(min|max)\.s(s|d)$', n_)
    if m:
        out = list(args[0]); out[0] = x86_minmax(ex, args[0][0], args[1][0], m.group(2) == 'min'); return out
    # ---------------- conversions fp -> int
    m = re.match(r'sse2\.cvt(t?)p(s|d)2dq$', n_)
    if m:
        r = [cvt_fp_to_int(ex, st, x, 32, True, m.group(1) == 't') for x in args[0]]
        if m.group(2) == 'd': r = r + [0, 0]
        return r
    m = re.match(r'avx\.cvt(t?)\.p(s|d)2dq\.256$', n_)
    if m:
        return [cvt_fp_to_int(ex, st, x, 32, True, m.group(1) == 't') for x in args[0]]
    m = re.match(r'avx512\.mask\.cvt(t?)p(s|d)2(u?)(dq|qq)\.(\d+)$', n_)
    if m:
        a, src, k = args[0], args[1], args[2]
        if len(args) > 3 and args[3] != 4: raise Unsupported('embedded rounding ' + nm)
        n = rty.el.n
        r = [cvt_fp_to_int(ex, st, x, n, m.group(3) != 'u', m.group(1) == 't') for x in a]
        if len(r) < rty.n: r = r + [0] * (rty.n - len(r))
        return apply_mask(ex, rty, r, src, k)
    m = re.match(r'avx512\.(sitofp|uitofp)\.round\.', n_)
    if m:
        if args[1] != 4: raise Unsupported('embedded rounding ' + nm)
        return ex.cast(m.group(1), aty[0], rty, args[0], st)
    m = re.match(r'(sse2\.cvtdq2ps|avx\.cvtdq2\.ps\.256)$', n_)
    if m:
        return ex.cast('sitofp', aty[0], rty, args[0], st)
    # ---------------- rounding
    m = re.match(r'(sse41\.round\.p(s|d)|avx\.round\.p(s|d)\.256)$', n_)
    if m:
        imm = args[1]
        return [fp_round(ex, x, mxcsr_round_imm(imm)) for x in args[0]]
    m = re.match(r'sse41\.round\.s(s|d)$', n_)
    if m:
        out = list(args[0]); out[0] = fp_round(ex, args[1][0], mxcsr_round_imm(args[2])); return out
    m = re.match(r'avx512\.mask\.rndscale\.p(s|d)\.(\d+)$', n_)
    if m:
        a, imm, src, k = args[:4]
        if imm >> 4: raise Unsupported('rndscale with scale')
        r = [fp_round(ex, x, mxcsr_round_imm(imm)) for x in a]
        return apply_mask(ex, rty, r, src, k)
    # ---------------- AVX512 misc
    m = re.match(r'avx512\.mask\.pmov(s|us)?\.(\w\w)\.(\d+)$', n_)
    if m:
        a, src, k = args; n = rty.el.n
        if m.group(1): raise Unsupported(nm)
        r = [extract(n - 1, 0, x) for x in a]
        if len(r) < rty.n: r = r + [0] * (rty.n - len(r))
        return apply_mask(ex, rty, r, src, k)
    m = re.match(r'avx512\.pternlog\.(d|q)\.(\d+)$', n_)
    if m:
        a, b, c, imm = args; n = rty.el.n
        def tern(x, y, z):
            X, Y, Z = bv(x, n), bv(y, n), bv(z, n)
            r = z3.BitVecVal(0, n)
            for i in range(8):
                if (imm >> i) & 1:
                    t = (X if i & 4 else ~X) & (Y if i & 2 else ~Y) & (Z if i & 1 else ~Z)
                    r = r | t
            return simp_c(r, x, y, z)
        return [tern(x, y, z) for x, y, z in zip(a, b, c)]
    m = re.match(r'avx512\.mask\.(compress|expand)\.', n_)
    if m:
        a, src, k = args
        nl = len(a)
        kb = k if isinstance(k, list) else [extract(i, i, k) == 1 if not is_c(k) else bool((k >> i) & 1) for i in range(nl)]
        el = rty.el
        w = 8
        # prefix counts
        cnt = [0]
        for i in range(nl):
            c = cnt[-1]
            cnt.append(c + 1 if kb[i] is True else c if kb[i] is False else
                       (bv(c, w) + z3.If(kb[i], z3.BitVecVal(1, w), z3.BitVecVal(0, w))))
        out = []
        if m.group(1) == 'compress':
            for j in range(nl):
                r = src[j]
                for i in reversed(range(j, nl)):
                    cond = b_and(kb[i], eqc(cnt[i], j, w))
                    r = ex.select1(cond, el, a[i], r) if not isinstance(cond, bool) else (a[i] if cond else r)
                out.append(r)
        else:
            for i in range(nl):
                r = a[min(i, nl - 1)]
                v = None
                for j in reversed(range(0, i + 1)):
                    cond = eqc(cnt[i], j, w)
                    v = a[j] if v is None else (ex.select1(cond, el, a[j], v) if not isinstance(cond, bool) else (a[j] if cond else v))
                out.append(ex.select1(kb[i], el, v, src[i]) if not isinstance(kb[i], bool) else (v if kb[i] else src[i]))
        return out
    m = re.match(r'avx512\.mask\.scalef\.p(s|d)\.(\d+)$', n_)
    if m:
        # VSCALEFPS/PD (Intel SDM): DEST = a * 2^floor(b), one rounding (MXCSR.RC / embedded rounding = current direction);
        # special cases of table 5-31: NaN operands propagate; b=+inf: a=0 -> QNaN indefinite, else a*inf;  b=-inf: a=inf -> QNaN, else a*0.
        a, b, src, k, rc = args[:5]
        if rc != 4: raise Unsupported('scalef with embedded rounding')
        w = rty.el.n
        S = FSORT[w]; W = z3.Float64() if w == 32 else z3.FPSort(15, 64)
        lim = 400 if w == 32 else 3000
        out = []
        for x, y in zip(a, b):
            fx, fy = x.fp(), y.fp()
            fl = z3.fpRoundToIntegral(z3.RTN(), fy)
            big = z3.fpGT(fl, z3.FPVal(float(lim), S)); small = z3.fpLT(fl, z3.FPVal(float(-lim), S))
            e = z3.If(big, z3.BitVecVal(lim, 32), z3.If(small, z3.BitVecVal(-lim & 0xffffffff, 32), z3.fpToSBV(z3.RTN(), fy, z3.BitVecSort(32))))
            if w == 32: p2 = z3.fpBVToFP((z3.SignExt(32, e) + 1023) << 52, z3.Float64())
            else: p2 = z3.fpFP(z3.BitVecVal(0, 1), z3.Extract(14, 0, e + 16383), z3.BitVecVal(0, 63))
            prod = z3.fpMul(RNE, z3.fpFPToFP(RNE, fx, W), p2)            # exact in the wide sort
            r = z3.fpFPToFP(RNE, prod, S)                                # the single rounding
            nan = z3.fpNaN(S)
            pinf = z3.And(z3.fpIsInf(fy), z3.fpIsPositive(fy)); ninf = z3.And(z3.fpIsInf(fy), z3.fpIsNegative(fy))
            r = z3.If(z3.Or(z3.fpIsNaN(fx), z3.fpIsNaN(fy)), nan,
                      z3.If(pinf, z3.If(z3.fpIsZero(fx), nan, z3.fpMul(RNE, fx, z3.fpPlusInfinity(S))),
                            z3.If(ninf, z3.If(z3.fpIsInf(fx), nan, z3.fpMul(RNE, fx, z3.fpPlusZero(S))), r)))
            out.append(F(w, fp=r))
        return apply_mask(ex, rty, out, src, k)
    m = re.match(r'avx512\.(vfmadd|vfmaddsub)\.p(s|d)\.(\d+)$', n_)
    if m and m.group(1) == 'vfmadd':
        if args[3] != 4: raise Unsupported('embedded rounding')
        n = rty.el.n
        return [ex.fp_arith(st, 'fma', n, [a, b, c]) for a, b, c in zip(*args[:3])]
    m = re.match(r'avx512\.(add|sub|mul|div)\.p(s|d)\.512$', n_)
    if m:
        if args[2] != 4: raise Unsupported('embedded rounding')
        n = rty.el.n
        return [ex.fp_arith(st, 'f' + m.group(1), n, [a, b]) for a, b in zip(args[0], args[1])]
    m = re.match(r'avx512\.mask\.cmp\.p(s|d)\.(\d+)$', n_)
    if m:
        a, b, imm, k = args[:4]
        pr = CMP_IMM[imm & 31]
        r = [ex.fcmp1(pr, x, y) for x, y in zip(a, b)]
        return [b_and(x, y) for x, y in zip(r, k)] if isinstance(k, list) else r
    m = re.match(r'avx512\.fpclass\.p(s|d)\.(\d+)$', n_)
    if m:
        a, imm = args
        def cls(x):
            f = x.fp(); r = False
            if imm & 1: r = b_or(r, z3.And(z3.fpIsNaN(f), msbit_quiet(x)))
            if imm & 2: r = b_or(r, z3.And(z3.fpIsZero(f), z3.Not(z3.fpIsNegative(f))))
            if imm & 4: r = b_or(r, z3.And(z3.fpIsZero(f), z3.fpIsNegative(f)))
            if imm & 8: r = b_or(r, z3.And(z3.fpIsInf(f), z3.Not(z3.fpIsNegative(f))))
            if imm & 16: r = b_or(r, z3.And(z3.fpIsInf(f), z3.fpIsNegative(f)))
            if imm & 32: r = b_or(r, z3.fpIsSubnormal(f))
            if imm & 64: r = b_or(r, z3.And(z3.fpIsNegative(f), z3.Not(z3.fpIsNaN(f)), z3.Not(z3.fpIsZero(f)), z3.Not(z3.fpIsInf(f)), z3.Not(z3.fpIsSubnormal(f))) if False else z3.And(z3.fpIsNegative(f), z3.Not(z3.fpIsNaN(f)), z3.Not(z3.fpIsZero(f))))
            if imm & 128: r = b_or(r, z3.And(z3.fpIsNaN(f), z3.Not(msbit_quiet(x))))
            return r
        return [cls(x) for x in a]
    m = re.match(r'(sse2|avx2|avx512)\.psad\.bw(\.\d+)?$', n_)
    if m:
        a, b = args; out = []
        for blk in range(len(a) // 8):
            tot = 0
            for j in range(8):
                x, y = a[blk * 8 + j], b[blk * 8 + j]
                X, Y = z3.ZeroExt(56, bv(x, 8)), z3.ZeroExt(56, bv(y, 8))
                d = z3.If(z3.UGE(X, Y), X - Y, Y - X)
                tot = d if isinstance(tot, int) and tot == 0 else tot + d
            out.append(simp_c(tot, *a[blk * 8:blk * 8 + 8], *b[blk * 8:blk * 8 + 8]))
        return out
    m = re.match(r'(sse2|avx2|avx512)\.pmadd\.wd(\.\d+)?$', n_)
    if m:
        a, b = args; out = []
        for j in range(len(a) // 2):
            p0 = z3.SignExt(16, bv(a[2 * j], 16)) * z3.SignExt(16, bv(b[2 * j], 16))
            p1 = z3.SignExt(16, bv(a[2 * j + 1], 16)) * z3.SignExt(16, bv(b[2 * j + 1], 16))
            out.append(simp_c(p0 + p1, a[2 * j], b[2 * j], a[2 * j + 1], b[2 * j + 1]))
        return out
    m = re.match(r'(sse2|avx2|avx512)\.pmul(h|hu)\.w(\.\d+)?$', n_)
    if m:
        sg = m.group(2) == 'h'
        def mh(x, y):
            X = (z3.SignExt if sg else z3.ZeroExt)(16, bv(x, 16)); Y = (z3.SignExt if sg else z3.ZeroExt)(16, bv(y, 16))
            return simp_c(z3.Extract(31, 16, X * Y), x, y)
        return [mh(x, y) for x, y in zip(args[0], args[1])]
    m = re.match(r'(sse2|sse41|avx2|avx512)\.pack(ss|us)(wb|dw)(\.\d+)?$', n_)
    if m:
        a, b = args; n = aty[0].el.n; h = n // 2; per = 128 // n
        sg = m.group(2) == 'ss'
        def sat(x):
            X = bv(x, n)
            if sg:
                hi = z3.BitVecVal((1 << (h - 1)) - 1, n); lo = z3.BitVecVal(-(1 << (h - 1)), n)
                r = z3.If(X > hi, hi, z3.If(X < lo, lo, X))
            else:
                hi = z3.BitVecVal((1 << h) - 1, n)
                r = z3.If(X > hi, hi, z3.If(X < 0, z3.BitVecVal(0, n), X))
            return simp_c(z3.Extract(h - 1, 0, r), x)
        out = []
        for blk in range(len(a) // per):
            out += [sat(x) for x in a[blk * per:(blk + 1) * per]] + [sat(x) for x in b[blk * per:(blk + 1) * per]]
        return out
    m = re.match(r'sse3\.ldu\.dq$', n_)
    if m:
        return ex.load(st, rty, args[0], 1)
    # ---------------- gathers / scatters
    m = re.match(r'avx2\.gather\.(d|q)\.(d|q|ps|pd)(\.256)?$', n_)
    if m:
        src, base, idx, msk, scale = args
        n = rty.el.n; iw = aty[2].el.n; out = []
        for i in range(rty.n):
            mb = msb(fbits(msk[i]), n)
            p = gather_ptr(ex, base, idx[i], iw, scale)
            out.append(masked_load1(ex, st, rty.el, p, mb, src[i]) if not isinstance(mb, bool) else (ex.load(st, rty.el, p, 1) if mb else src[i]))
        return out
    m = re.match(r'avx512\.mask\.gather\.(dp[sdiq]|qp[sdiq])\.(\d+)$', n_)
    if m:
        src, base, idx, msk, scale = args
        iw = aty[2].el.n; out = []
        kb = msk if isinstance(msk, list) else [extract(i, i, msk) == 1 if not is_c(msk) else bool((msk >> i) & 1) for i in range(rty.n)]
        for i in range(rty.n):
            p = gather_ptr(ex, base, idx[i], iw, scale)
            mb = kb[i]
            out.append(masked_load1(ex, st, rty.el, p, mb, src[i]) if not isinstance(mb, bool) else (ex.load(st, rty.el, p, 1) if mb else src[i]))
        return out
    m = re.match(r'avx512\.mask\.scatter\.(dp[sdiq]|qp[sdiq])\.(\d+)$', n_)
    if m:
        base, msk, idx, val, scale = args
        vty = aty[3]; iw = aty[2].el.n
        kb = msk if isinstance(msk, list) else [extract(i, i, msk) == 1 if not is_c(msk) else bool((msk >> i) & 1) for i in range(vty.n)]
        for i in range(vty.n):
            p = gather_ptr(ex, base, idx[i], iw, scale)
            mb = kb[i]
            if isinstance(mb, bool):
                if mb: ex.store(st, vty.el, val[i], p, 1)
            else:
                masked_store1(ex, st, vty.el, val[i], p, mb)
        return None
    raise Unsupported('x86 intrinsic ' + nm)


CMP_IMM = ['oeq', 'olt', 'ole', 'uno', 'une', 'uge', 'ugt', 'ord', 'ueq', 'ult', 'ule', 'ord', 'one', 'oge', 'ogt', 'false',
           'oeq', 'olt', 'ole', 'uno', 'une', 'uge', 'ugt', 'ord', 'ueq', 'ult', 'ule', 'false', 'one', 'oge', 'ogt', 'true']
CMP_IMM[11] = 'false'; CMP_IMM[15] = 'true'; CMP_IMM[27] = 'false'; CMP_IMM[31] = 'true'


def msbit_quiet(x):
    n = x.n; b = bv(x.bits(), n)
    q = 22 if n == 32 else 51
    return z3.Extract(q, q, b) == 1


def or_all(bs):
    r = False
    for b in bs: r = b_or(r, b)
    return r


def eqc(a, j, w):
    if is_c(a): return a == j
    return a == z3.BitVecVal(j, w)


def pick(ex, ety, tab, sel):
    """tab[sel] for a (possibly symbolic) selector of exactly log2(len(tab)) bits"""
    if is_c(sel): return tab[sel]
    r = tab[-1]
    for j in reversed(range(len(tab) - 1)):
        r = ex.select1(sel == j, ety, tab[j], r)
    return r


def gather_ptr(ex, base, idx, iw, scale):
    if is_c(idx):
        off = tosigned(idx, iw) * scale
        return Ptr(base.rid, addoff(base.off, off) if off >= 0 or not is_c(base.off) else base.off + off, base.hint)
    x = z3.SignExt(64 - iw, idx) if iw < 64 else idx
    off = x * z3.BitVecVal(scale, 64) if scale != 1 else x
    if is_c(base.off):
        if base.off: off = off + z3.BitVecVal(base.off, 64)
    else: off = off + base.off
    import math
    return Ptr(base.rid, off, math.gcd(scale, base.hint or 0) if is_c(base.off) and base.off == 0 else math.gcd(scale, math.gcd(base.hint or 0, base.off if is_c(base.off) else 0)))
