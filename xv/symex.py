"""Symbolic executor: LLVM IR (as parsed by llir) -> z3 terms.

Value representation
  iN (N>1)    : python int (concrete, unsigned canonical) or z3 BitVecRef of width N
  i1          : python bool or z3 BoolRef
  float/double: F objects (bit pattern and/or FloatingPoint view)
  vectors     : python lists of the above;  aggregates: python lists (nested)
  pointers    : Ptr(region id, offset[int | BV64], hint)
"""
import itertools, math, struct
import z3
from . import llir
from .llir import IntT, FloatT, PtrT, VecT, ArrT, StructT, VoidT, sizeof, stride, alignof, field_offset

RNE = z3.RNE()
FSORT = {32: z3.Float32(), 64: z3.Float64(), 16: z3.Float16()}


class Unsupported(Exception):
    pass


class EncoderError(Exception):
    pass


_cnt = itertools.count()


_fresh_log = []   # every executor-introduced symbol of the current Executor (reset in Executor.__init__)


def fresh(prefix, n):
    v = z3.BitVec('%s!%d' % (prefix, next(_cnt)), n)
    _fresh_log.append(v)
    return v


def fresh_bool(prefix):
    v = z3.Bool('%s!%d' % (prefix, next(_cnt)))
    _fresh_log.append(v)
    return v


def mask(n): return (1 << n) - 1


def bv(x, n):
    if isinstance(x, int): return z3.BitVecVal(x, n)
    return x


def tosigned(x, n):
    return x - (1 << n) if x >> (n - 1) else x


def is_c(x): return isinstance(x, (int, bool))


def zbool(x):
    return z3.BoolVal(x) if isinstance(x, bool) else x


def b_not(a):
    if isinstance(a, bool): return not a
    return z3.Not(a)


def b_and(a, b):
    if isinstance(a, bool): return b if a else False
    if isinstance(b, bool): return a if b else False
    return z3.And(a, b)


def b_or(a, b):
    if isinstance(a, bool): return True if a else b
    if isinstance(b, bool): return True if b else a
    return z3.Or(a, b)


def b_xor(a, b):
    if isinstance(a, bool): return b_not(b) if a else b
    if isinstance(b, bool): return b_not(a) if b else a
    return z3.Xor(a, b)


def ite(c, a, b, n=None):
    """c: bool/BoolRef; a,b ints or BVs (width n) or bools"""
    if isinstance(c, bool): return a if c else b
    if isinstance(a, (bool, z3.BoolRef)) and not isinstance(a, int) or isinstance(a, bool):
        if a is b: return a
        return z3.If(c, zbool(a), zbool(b))
    if is_c(a) and is_c(b) and a == b: return a
    if a is b: return a
    return z3.If(c, bv(a, n), bv(b, n))


def width(x, n=None):
    if isinstance(x, int):
        return n
    return x.size()


def extract(hi, lo, x):
    if isinstance(x, int): return (x >> lo) & mask(hi - lo + 1)
    if lo == 0 and hi == x.size() - 1: return x
    if z3.is_app_of(x, z3.Z3_OP_CONCAT):
        # bitcasts between vector shapes build Concat(lanes) and slice it again: resolve the slice to the lane it falls into
        top = x.size()
        for i in range(x.num_args()):
            a = x.arg(i); alo = top - a.size()
            if lo >= alo and hi < top:
                return extract(hi - alo, lo - alo, a)
            top = alo
            if top <= lo: break
    if z3.is_app_of(x, z3.Z3_OP_EXTRACT):
        l0 = x.params()[1]
        return extract(hi + l0, lo + l0, x.arg(0))
    k = x.decl().kind() if z3.is_app(x) else None
    if k in (z3.Z3_OP_BXOR, z3.Z3_OP_BAND, z3.Z3_OP_BOR, z3.Z3_OP_BNOT) and x.num_args() <= 4:
        # slices distribute over bitwise operators (lane-wise masks written on a wider element type)
        parts = [extract(hi, lo, x.arg(i)) for i in range(x.num_args())]
        parts = [bv(p_, hi - lo + 1) for p_ in parts]
        if k == z3.Z3_OP_BNOT: return ~parts[0]
        r = parts[0]
        for p_ in parts[1:]:
            r = (r ^ p_) if k == z3.Z3_OP_BXOR else ((r & p_) if k == z3.Z3_OP_BAND else (r | p_))
        return r
    if z3.is_bv_value(x):
        return z3.BitVecVal((x.as_long() >> lo) & mask(hi - lo + 1), hi - lo + 1)
    return z3.Extract(hi, lo, x)


def concat_le(parts):
    """parts: list of (value, nbits) little-endian (first = least significant)"""
    if all(isinstance(v, int) for v, _ in parts):
        r = 0; sh = 0
        for v, n in parts:
            r |= v << sh; sh += n
        return r
    if len(parts) == 1: return parts[0][0]
    # merge adjacent extracts of the same term
    exprs = [bv(v, n) for v, n in parts]
    merged = []
    for e in exprs:
        if merged:
            p = merged[-1]
            if (z3.is_app_of(e, z3.Z3_OP_EXTRACT) and z3.is_app_of(p, z3.Z3_OP_EXTRACT)
                    and e.arg(0).eq(p.arg(0)) and e.params()[1] == p.params()[0] + 1):
                merged[-1] = extract(e.params()[0], p.params()[1], e.arg(0)); continue
            if (z3.is_app_of(e, z3.Z3_OP_EXTRACT) and e.params()[1] == p.size() and e.arg(0).size() > p.size()
                    and not z3.is_app_of(p, z3.Z3_OP_EXTRACT) and False):
                pass
        merged.append(e)
    if len(merged) == 1: return merged[0]
    return z3.Concat(*reversed(merged))


def bits_to_fp(b, n):
    """fpBVToFP with sign manipulations lifted to fp.neg / fp.abs (sound for every bit pattern: all NaNs are one FP value), so that
    kernels that negate by xor-ing the sign bit produce the same term as the oracle's fp.neg"""
    sb = 1 << (n - 1)
    if z3.is_app_of(b, z3.Z3_OP_BXOR) and b.num_args() == 2:
        for i in (0, 1):
            c = b.arg(i)
            if z3.is_bv_value(c) and c.as_long() == sb:
                return z3.fpNeg(bits_to_fp(b.arg(1 - i), n))
    if z3.is_app_of(b, z3.Z3_OP_BAND) and b.num_args() == 2:
        for i in (0, 1):
            c = b.arg(i)
            if z3.is_bv_value(c) and c.as_long() == sb - 1:
                return z3.fpAbs(bits_to_fp(b.arg(1 - i), n))
    return z3.fpBVToFP(b, FSORT[n])


class F:
    """floating point value of width n"""
    __slots__ = ('n', '_bits', '_fp', 'ex')

    def __init__(s, n, bits=None, fp=None, ex=None):
        s.n = n; s._bits = bits; s._fp = fp; s.ex = ex

    def fp(s):
        if s._fp is None:
            s._fp = bits_to_fp(bv(s._bits, s.n), s.n)
        return s._fp

    def bits(s):
        if s._bits is None:
            f = z3.simplify(s._fp)
            if z3.is_fp_value(f) and not f.isNaN():
                s._bits = z3.simplify(z3.fpToIEEEBV(f)).as_long()
            elif z3.is_fp_value(f) and CONCRETE_NAN[0]:
                # point evaluation: a NaN produced from concrete operands carries the x86 default QNaN pattern ("real indefinite")
                s._bits = (0xFFC00000 if s.n == 32 else 0xFFF8000000000000)
            else:
                # one bit pattern per FP term: the same operation on the same operands is deterministic, so structurally identical
                # terms (hash-consed by z3) share their NaN payload symbol - keeps formulas of duplicated lanes small
                key = f.get_id()
                hit = _nanmemo.get(key)
                if hit is not None and hit[0].eq(f):
                    s._bits = hit[1]
                else:
                    nb = fresh('nanbits', s.n)
                    _side.append(z3.fpIsNaN(z3.fpBVToFP(nb, FSORT[s.n])))
                    s._bits = z3.If(z3.fpIsNaN(f), nb, z3.fpToIEEEBV(f))
                    _nanmemo[key] = (f, s._bits)
        return s._bits

    def __repr__(s): return 'F%d(%s)' % (s.n, s._bits if s._bits is not None else s._fp)


CONCRETE_NAN = [False]
_nanmemo = {}
_side = []   # side assumptions about fresh symbols (NaN payloads etc.); reset per Executor


class Ptr:
    __slots__ = ('rid', 'off', 'hint')

    def __init__(s, rid, off, hint=0):
        s.rid = rid; s.off = off; s.hint = hint   # hint: gcd of strides that built a symbolic offset (0 = none)

    def __repr__(s): return 'Ptr(%s,%s)' % (s.rid, s.off)


class Region:
    def __init__(s, rid, kind, size, align, base=None, name=''):
        s.rid = rid; s.kind = kind; s.size = size; s.align = align; s.base = base; s.name = name


class State:
    def __init__(s):
        s.regs = {}
        s.mem = {}       # rid -> list of byte cells (src, idx) / None    (alloca & global regions)
        s.ext = None     # z3 Array BV64->BV8 for caller memory
        s.pc = []        # path condition (list of BoolRef)
        s.block = None; s.prev = None; s.phis_done = False
        s.ret = None; s.dead = False
        s.trace = []     # external call trace: (pc list, name, args, result)
        s.outcome = None

    def clone(s):
        t = State()
        t.regs = dict(s.regs); t.mem = {k: list(v) for k, v in s.mem.items()}; t.ext = s.ext
        t.pc = list(s.pc); t.block = s.block; t.prev = s.prev; t.phis_done = s.phis_done
        t.ret = s.ret; t.dead = s.dead; t.trace = list(s.trace); t.outcome = s.outcome
        return t


class Executor:
    def __init__(s, mod, assume=(), fork_timeout_ms=3000, max_unwind=70, max_steps=400000, fpmode='exact',
                 stubs=None, max_depth=24, ubshift_mode='fresh', lazy_forks=False, sym_muldiv=False, concrete_nan=False):
        global _side, _fresh_log, _nanmemo
        _nanmemo = {}
        _fresh_log = []; s.fresh_log = _fresh_log
        s.mod = mod
        s.regions = {}
        s.assume = list(assume)
        s.obligs = []      # (kind, pc(list), cond, info)
        s.ub = []          # (cond BoolRef, text)
        s.ubshift_mode = ubshift_mode; s.cur_ins = None; s.ubchoice = {}
        s.sym_muldiv = sym_muldiv
        CONCRETE_NAN[0] = bool(concrete_nan)
        s.lazy_forks = lazy_forks     # explore both sides of every symbolic branch without asking the solver (infeasible paths only cost time: every obligation carries its path condition)
        s.ubvals = []      # (fresh var, [candidate x86 results]) for out-of-range shifts
        s.writes = []      # caller-memory stores in program order: (pc, rid, offset, nbytes, value bits)
        s.accesses = []    # (pc, addr BV64, nbytes, align, 'r'|'w', rid, off)
        s.side = []; _side = s.side
        s.steps = 0; s.max_steps = max_steps
        s.max_unwind = max_unwind
        s.fork_timeout_ms = fork_timeout_ms
        s.forks = 0; s.max_trip = 0
        s.solver = None
        s.fpmode = fpmode
        s.stubs = stubs or {}
        s.ipd_cache = {}
        s.depth = 0; s.max_depth = max_depth
        s.uf = {}
        s.unwind_hits = []
        s.fmf_seen = []
        s.intrinsics_used = set()
        s.ext0 = z3.Array('MEM0', z3.BitVecSort(64), z3.BitVecSort(8))
        s.global_regions = {}
        s.loop_trips = {}
        s.lemmas_used = set()

    # ------------------------------------------------------------ regions
    def new_region(s, kind, size, align, name='', base=None):
        rid = len(s.regions) + 1
        if base is None:
            base = z3.BitVec('base_%s_%d' % (kind, rid), 64)
        s.regions[rid] = Region(rid, kind, size, align, base, name)
        return rid

    def ext_pointer(s, name, align=1):
        """a caller-provided pointer: symbolic base address into the external memory array"""
        base = z3.BitVec('ptr_' + name, 64)
        rid = s.new_region('ext', None, align, name, base)
        return Ptr(rid, 0)

    def global_ptr(s, st, gname):
        if gname in s.global_regions:
            return Ptr(s.global_regions[gname], 0)
        g = s.mod.globals.get(gname)
        if g is None:
            if gname in s.mod.funcs or gname in s.mod.decls:
                rid = s.new_region('func', 0, 1, gname)
                s.global_regions[gname] = rid
                return Ptr(rid, 0)
            raise Unsupported('global ' + gname)
        size = sizeof(g['ty'])
        rid = s.new_region('global', size, g['align'] or alignof(g['ty']), gname)
        s.global_regions[gname] = rid
        cells = [None] * size
        if g['init'] is not None:
            val = s.const(st, g['ty'], g['init'])
            s.write_cells(cells, 0, g['ty'], val)
        # (an external global such as a vtable or type_info object: opaque contents, only its address is meaningful)
        s.ginit = getattr(s, 'ginit', {})
        s.ginit[rid] = cells
        return Ptr(rid, 0)

    def cells_of(s, st, rid):
        c = st.mem.get(rid)
        if c is None:
            r = s.regions[rid]
            if r.kind == 'global':
                c = list(s.ginit[rid]); st.mem[rid] = c
            else:
                raise EncoderError('no cells for region %r' % rid)
        return c

    # ------------------------------------------------------------ value <-> bytes
    def to_bits(s, ty, v):
        """-> (int|BV, nbits) of the in-memory representation"""
        if isinstance(ty, IntT):
            if ty.n == 1:
                return (int(v) if isinstance(v, bool) else z3.If(v, z3.BitVecVal(1, 8), z3.BitVecVal(0, 8))), 8
            n8 = sizeof(ty) * 8
            if n8 != ty.n:
                v = v if isinstance(v, int) else z3.ZeroExt(n8 - ty.n, v)
            return v, n8
        if isinstance(ty, FloatT):
            return v.bits(), ty.n
        if isinstance(ty, PtrT):
            return s.ptr_to_int(v), 64
        if isinstance(ty, VecT):
            if isinstance(ty.el, IntT) and ty.el.n == 1:
                parts = [((int(x) if isinstance(x, bool) else z3.If(x, z3.BitVecVal(1, 1), z3.BitVecVal(0, 1))), 1) for x in v]
                r = concat_le(parts); n = ty.n
                n8 = sizeof(ty) * 8
                if n8 != n: r = r if isinstance(r, int) else z3.ZeroExt(n8 - n, r)
                return r, n8
            parts = [s.to_bits(ty.el, x) for x in v]
            return concat_le(parts), sum(n for _, n in parts)
        raise Unsupported('to_bits %r' % (ty,))

    def from_bits(s, ty, b):
        if isinstance(ty, IntT):
            if ty.n == 1:
                x = extract(0, 0, b)
                return bool(x) if isinstance(x, int) else (x == 1)
            return extract(ty.n - 1, 0, b)
        if isinstance(ty, FloatT):
            return F(ty.n, bits=b)
        if isinstance(ty, VecT):
            if isinstance(ty.el, IntT) and ty.el.n == 1:
                out = []
                for i in range(ty.n):
                    x = extract(i, i, b)
                    out.append(bool(x) if isinstance(x, int) else (x == 1))
                return out
            w = ty.el.n if not isinstance(ty.el, PtrT) else 64
            return [s.from_bits(ty.el, extract((i + 1) * w - 1, i * w, b)) for i in range(ty.n)]
        if isinstance(ty, PtrT):
            return s.int_to_ptr(b)
        raise Unsupported('from_bits %r' % (ty,))

    def write_cells(s, cells, off, ty, v):
        if isinstance(ty, (ArrT,)):
            st_ = stride(ty.el)
            for i in range(ty.n): s.write_cells(cells, off + i * st_, ty.el, v[i])
            return
        if isinstance(ty, StructT):
            for i, f in enumerate(ty.fields): s.write_cells(cells, off + field_offset(ty, i), f, v[i])
            return
        if isinstance(ty, PtrT):
            cells[off] = ('ptr', v)
            for k in range(1, 8): cells[off + k] = ('ptrtail', k)
            return
        b, n = s.to_bits(ty, v)
        for k in range(n // 8):
            cells[off + k] = (b, k)

    def read_cells(s, cells, off, ty, st=None, rid=None):
        if isinstance(ty, ArrT):
            st_ = stride(ty.el)
            return [s.read_cells(cells, off + i * st_, ty.el, st, rid) for i in range(ty.n)]
        if isinstance(ty, StructT):
            return [s.read_cells(cells, off + field_offset(ty, i), f, st, rid) for i, f in enumerate(ty.fields)]
        nb = sizeof(ty)
        if off < 0 or off + nb > len(cells):
            raise EncoderError('concrete out-of-bounds access off=%d size=%d region=%d' % (off, nb, len(cells)))
        if isinstance(ty, PtrT):
            c = cells[off]
            if c is not None and isinstance(c[0], str) and c[0] == 'ptr': return c[1]
            if c is None:
                raise Unsupported('load of uninitialised pointer')
            b = s.cells_bits(cells, off, 8)
            return s.int_to_ptr(b)
        b = s.cells_bits(cells, off, nb)
        return s.from_bits(ty, b)

    def cells_bits(s, cells, off, nb):
        parts = []
        i = 0
        while i < nb:
            c = cells[off + i]
            if c is None:
                u = fresh('uninit', 8); c = (u, 0); cells[off + i] = c
            if isinstance(c[0], str):
                raise Unsupported('integer load of stored pointer')
            src, k = c
            # extend run over consecutive bytes of the same source
            j = 1
            while i + j < nb:
                d = cells[off + i + j]
                if d is None or isinstance(d[0], str) or d[0] is not src or d[1] != k + j: break
                j += 1
            parts.append((extract((k + j) * 8 - 1, k * 8, src), j * 8))
            i += j
        return concat_le(parts)

    def zero_value(s, ty):
        if isinstance(ty, IntT): return False if ty.n == 1 else 0
        if isinstance(ty, FloatT): return F(ty.n, bits=0)
        if isinstance(ty, PtrT): return Ptr(None, 0)
        if isinstance(ty, (VecT, ArrT)): return [s.zero_value(ty.el) for _ in range(ty.n)]
        if isinstance(ty, StructT): return [s.zero_value(f) for f in ty.fields]
        raise Unsupported('zero %r' % (ty,))

    def undef_value(s, ty, what='undef'):
        if isinstance(ty, IntT): return fresh_bool(what) if ty.n == 1 else fresh(what, ty.n)
        if isinstance(ty, FloatT): return F(ty.n, bits=fresh(what, ty.n))
        if isinstance(ty, (VecT, ArrT)): return [s.undef_value(ty.el, what) for _ in range(ty.n)]
        if isinstance(ty, StructT): return [s.undef_value(f, what) for f in ty.fields]
        if isinstance(ty, PtrT): return Ptr(None, fresh(what, 64))
        raise Unsupported('undef %r' % (ty,))

    # ------------------------------------------------------------ pointers
    def ptr_to_int(s, p):
        if p.rid is None:
            return p.off
        base = s.regions[p.rid].base
        if is_c(p.off) and p.off == 0: return base
        return base + bv(p.off, 64)

    def int_to_ptr(s, b):
        if isinstance(b, int):
            return Ptr(None, b)
        # recognise base + off
        b = z3.simplify(b)
        for rid, r in s.regions.items():
            if b.eq(r.base): return Ptr(rid, 0)
        if z3.is_app_of(b, z3.Z3_OP_BADD):
            ch = b.children()
            for rid, r in s.regions.items():
                for k, c in enumerate(ch):
                    if c.eq(r.base):
                        rest = [x for j, x in enumerate(ch) if j != k]
                        off = rest[0]
                        for x in rest[1:]: off = off + x
                        off = z3.simplify(off)
                        if z3.is_bv_value(off): off = off.as_long()
                        return Ptr(rid, off)
        return Ptr(None, b)

    # ------------------------------------------------------------ constants / operands
    def const(s, st, ty, op):
        k = op[0]
        if k == 'int':
            if isinstance(ty, IntT) and ty.n == 1: return bool(op[1] & 1)
            return op[1]
        if k == 'fp': return F(ty.n, bits=op[1])
        if k == 'zero': return s.zero_value(ty)
        if k == 'null': return Ptr(None, 0)
        if k in ('undef', 'poison'): return s.undef_value(ty, k)
        if k == 'vec': return [s.const(st, t, o) for t, o in op[1]]
        if k == 'arr': return [s.const(st, t, o) for t, o in op[1]]
        if k == 'struct': return [s.const(st, t, o) for t, o in op[1]]
        if k == 'global': return s.global_ptr(st, op[1])
        if k == 'reg': return st.regs[op[1]]
        if k == 'cexpr':
            o = op[1]
            if o == 'getelementptr':
                sty, ops = op[2], op[3]
                base = s.const(st, ops[0][0], ops[0][1])
                idx = [s.const(st, t, v) for t, v in ops[1:]]
                return s.gep(base, sty, [(t, i) for (t, _), i in zip(ops[1:], idx)])
            if o in ('bitcast', 'addrspacecast'):
                v = s.const(st, op[2][0], op[2][1])
                return s.cast(o, op[2][0], op[3], v)
            if o in ('ptrtoint', 'inttoptr', 'trunc', 'zext', 'sext'):
                v = s.const(st, op[2][0], op[2][1])
                return s.cast(o, op[2][0], op[3], v)
            if o in llir.BINOPS:
                a = s.const(st, op[2][0], op[2][1]); b = s.const(st, op[3][0], op[3][1])
                return s.binop(o, op[2][0], a, b, [])
            raise Unsupported('cexpr ' + o)
        raise Unsupported('const %r' % (op,))

    def val(s, st, tv):
        ty, op = tv
        if op[0] == 'reg':
            try:
                return st.regs[op[1]]
            except KeyError:
                raise EncoderError('undefined register %s' % op[1])
        return s.const(st, ty, op)

    # ------------------------------------------------------------ scalar ops
    def ub_note(s, st, cond, text):
        if isinstance(cond, bool):
            if not cond: return
            cond = z3.BoolVal(True)
        s.ub.append((z3.And(*(st.pc + [cond])) if st.pc else cond, text))

    def int_binop(s, st, op, n, a, b, flags):
        if n == 1:
            if op in ('and', 'mul'): return b_and(a, b)
            if op == 'or': return b_or(a, b)
            if op in ('xor', 'add', 'sub'): return b_xor(a, b)
            raise Unsupported('i1 ' + op)
        if is_c(a) and is_c(b):
            m = mask(n)
            if op == 'add': return (a + b) & m
            if op == 'sub': return (a - b) & m
            if op == 'mul': return (a * b) & m
            if op == 'and': return a & b
            if op == 'or': return a | b
            if op == 'xor': return a ^ b
            if op == 'shl':
                if b >= n: return fresh('ubshift', n) if not s.ub_note(st, True, 'shl count>=width') else 0
                return (a << b) & m
            if op == 'lshr':
                if b >= n:
                    s.ub_note(st, True, 'lshr count>=width'); return fresh('ubshift', n)
                return a >> b
            if op == 'ashr':
                if b >= n:
                    s.ub_note(st, True, 'ashr count>=width'); return fresh('ubshift', n)
                return (tosigned(a, n) >> b) & m
            if op in ('udiv', 'urem', 'sdiv', 'srem'):
                if b == 0:
                    s.ub_note(st, True, op + ' by zero'); return fresh('ubdiv', n)
                if op == 'udiv': return a // b
                if op == 'urem': return a % b
                sa, sb = tosigned(a, n), tosigned(b, n)
                q = abs(sa) // abs(sb)
                if (sa < 0) != (sb < 0): q = -q
                if op == 'sdiv': return q & m
                return (sa - q * sb) & m
        A, B = bv(a, n), bv(b, n)
        if op == 'add': return A + B
        if op == 'sub': return A - B
        if op == 'mul': return A * B
        if op == 'and': return A & B
        if op == 'or': return A | B
        if op == 'xor': return A ^ B
        if op in ('shl', 'lshr', 'ashr'):
            r = {'shl': lambda: A << B, 'lshr': lambda: z3.LShR(A, B), 'ashr': lambda: A >> B}[op]()
            if is_c(b): return r
            oob = z3.UGE(B, n)
            s.ub_note(st, oob, op + ' count>=width')
            fv = fresh('ubshift', n)
            # the two ways x86 code generation resolves an out-of-range count: vector shifts saturate (0 / sign fill),
            # scalar shifts mask the count.  Used only to refine a UB-tagged counterexample (engine.decide_one).
            Bm = B & z3.BitVecVal((n - 1) if n & (n - 1) == 0 else mask(n), n)
            sat = (A >> z3.BitVecVal(n - 1, n)) if op == 'ashr' else z3.BitVecVal(0, n)
            wrap = {'shl': lambda: A << Bm, 'lshr': lambda: z3.LShR(A, Bm), 'ashr': lambda: A >> Bm}[op]()
            if s.ubshift_mode == 'x86':
                # one lowering per IR instruction (all lanes of a vector shift are lowered the same way)
                key = id(s.cur_ins)
                if key not in s.ubchoice: s.ubchoice[key] = z3.Bool('ubchoice!%d' % len(s.ubchoice))
                return z3.If(oob, z3.If(s.ubchoice[key], sat, wrap), r)
            s.ubvals.append((fv, [sat, wrap]))
            return z3.If(oob, fv, r)
        if op in ('udiv', 'urem', 'sdiv', 'srem'):
            mk = {'udiv': z3.UDiv, 'urem': z3.URem, 'sdiv': lambda x, y: x / y, 'srem': z3.SRem}[op]
            r = mk(A, B)
            # promoted narrow division (C++ integer promotion of 8/16-bit lanes): op_n(ext a, ext b) == ext(op_w(a, b))
            # outside b == 0 and MIN/-1.  This is lemma 'narrow_div' -- proved by the solver on every run (engine.lemma_jobs).
            kind = z3.Z3_OP_SIGN_EXT if op[0] == 's' else z3.Z3_OP_ZERO_EXT
            if z3.is_app_of(A, kind) and z3.is_app_of(B, kind) and A.arg(0).size() == B.arg(0).size():
                a0, b0 = A.arg(0), B.arg(0); w0 = a0.size()
                s.lemmas_used.add(('narrow_div', op, w0, n))
                r = (z3.SignExt if op[0] == 's' else z3.ZeroExt)(n - w0, mk(a0, b0))
            bad = (B == 0)
            if op in ('sdiv', 'srem'):
                bad = z3.Or(bad, z3.And(A == (1 << (n - 1)), B == mask(n)))
            if is_c(b) and b != 0 and (op[0] == 'u' or b != mask(n)):
                return r
            s.ub_note(st, bad, op + ' by zero / MIN/-1')
            return z3.If(bad, fresh('ubdiv', n), r)
        raise Unsupported('binop ' + op)

    def binop(s, op, ty, a, b, flags, st=None):
        st = st or State()
        if isinstance(ty, VecT):
            return [s.int_binop(st, op, ty.el.n, x, y, flags) for x, y in zip(a, b)]
        return s.int_binop(st, op, ty.n, a, b, flags)

    def icmp1(s, pred, n, a, b):
        if isinstance(a, Ptr) or isinstance(b, Ptr):
            return s.ptr_cmp(pred, a, b)
        if n == 1:
            if pred == 'eq': return b_not(b_xor(a, b))
            if pred == 'ne': return b_xor(a, b)
            a = ite(a, 1, 0, 2) if not isinstance(a, bool) else int(a)
            b = ite(b, 1, 0, 2) if not isinstance(b, bool) else int(b)
            n = 2
            if pred[0] == 's': raise Unsupported('signed i1 compare')
        if is_c(a) and is_c(b):
            if pred[0] == 's': a, b = tosigned(a, n), tosigned(b, n)
            return {'eq': a == b, 'ne': a != b, 'ugt': a > b, 'uge': a >= b, 'ult': a < b, 'ule': a <= b,
                    'sgt': a > b, 'sge': a >= b, 'slt': a < b, 'sle': a <= b}[pred]
        A, B = bv(a, n), bv(b, n)
        return {'eq': lambda: A == B, 'ne': lambda: A != B, 'ugt': lambda: z3.UGT(A, B), 'uge': lambda: z3.UGE(A, B),
                'ult': lambda: z3.ULT(A, B), 'ule': lambda: z3.ULE(A, B), 'sgt': lambda: A > B, 'sge': lambda: A >= B,
                'slt': lambda: A < B, 'sle': lambda: A <= B}[pred]()

    def ptr_cmp(s, pred, a, b):
        if not isinstance(a, Ptr) or not isinstance(b, Ptr): raise Unsupported('ptr cmp mixed')
        if a.rid == b.rid:
            return s.icmp1(pred, 64, a.off, b.off)
        if pred in ('eq', 'ne'):
            if (a.rid is None and is_c(a.off) and a.off == 0 and b.rid is not None) or \
               (b.rid is None and is_c(b.off) and b.off == 0 and a.rid is not None):
                return pred == 'ne'
            r = s.ptr_to_int(a) == s.ptr_to_int(b) if False else None
        return s.icmp1(pred, 64, s.ptr_to_int(a), s.ptr_to_int(b))

    def fcmp1(s, pred, a, b):
        if pred == 'true': return True
        if pred == 'false': return False
        x, y = a.fp(), b.fp()
        uno = z3.Or(z3.fpIsNaN(x), z3.fpIsNaN(y))
        base = {'eq': lambda: z3.fpEQ(x, y), 'gt': lambda: z3.fpGT(x, y), 'ge': lambda: z3.fpGEQ(x, y),
                'lt': lambda: z3.fpLT(x, y), 'le': lambda: z3.fpLEQ(x, y), 'ne': lambda: z3.Not(z3.fpEQ(x, y))}
        if pred == 'ord': r = z3.Not(uno)
        elif pred == 'uno': r = uno
        elif pred == 'one': r = z3.And(z3.Not(uno), z3.Not(z3.fpEQ(x, y)))
        elif pred == 'une': r = z3.Not(z3.fpEQ(x, y))        # true on NaN since fpEQ false
        elif pred == 'ueq': r = z3.Or(uno, z3.fpEQ(x, y))
        elif pred[0] == 'o': r = base[pred[1:]]()               # fp comparisons are false on NaN
        elif pred[0] == 'u': r = z3.Or(uno, base[pred[1:]]())
        else: raise Unsupported('fcmp ' + pred)
        if is_c(a._bits) and is_c(b._bits) and a._bits is not None and b._bits is not None:
            r = z3.simplify(r)
            return z3.is_true(r)
        return r

    # FP arithmetic: exact mode = SMT FloatingPoint; abstract mode = uninterpreted functions with sound axioms
    def fp_arith(s, st, op, n, args, fmf=()):
        if fmf and not (s.fpmode == 'token' and op == 'fadd' and set(fmf) <= {'reassoc', 'contract'}):
            s.fmf_seen.append((op, tuple(fmf)))
            return F(n, bits=fresh('fastmath', n))
        if s.fpmode == 'abstract' or (s.fpmode == 'mixed' and op not in ('fadd', 'fsub')):
            # mixed mode (termination analysis): additions/subtractions - the loop-control arithmetic - stay exact, the rest is abstract
            return s.fp_abstract(op, n, args)
        if s.fpmode == 'token':
            return s.fp_token(op, n, args)
        fs = [a.fp() for a in args]
        if op == 'fadd': r = z3.fpAdd(RNE, *fs)
        elif op == 'fsub': r = z3.fpSub(RNE, *fs)
        elif op == 'fmul': r = z3.fpMul(RNE, *fs)
        elif op == 'fdiv': r = z3.fpDiv(RNE, *fs)
        elif op == 'fma': r = z3.fpFMA(RNE, *fs)
        elif op == 'sqrt': r = z3.fpSqrt(RNE, fs[0])
        elif op == 'frem': raise Unsupported('frem')
        else: raise Unsupported(op)
        if all(is_c(a._bits) and a._bits is not None for a in args):
            r = z3.simplify(r)
        return F(n, fp=r)

    def fp_uf(s, name, n, arity):
        key = (name, n, arity)
        if key not in s.uf:
            bs = z3.BitVecSort(n)
            s.uf[key] = z3.Function('%s%d' % (name, n), *([bs] * arity + [bs]))
        return s.uf[key]

    def fp_abstract(s, op, n, args):
        bits = [bv(a.bits(), n) for a in args]
        sort = FSORT[n]
        nanp = lambda b: z3.fpIsNaN(z3.fpBVToFP(b, sort))
        if op == 'fsub':
            op = 'fadd'; bits[1] = bits[1] ^ z3.BitVecVal(1 << (n - 1), n)
        if op == 'fadd':
            a, b = bits
            lo = z3.If(z3.ULE(a, b), a, b); hi = z3.If(z3.ULE(a, b), b, a)
            r = s.fp_uf(op, n, 2)(lo, hi)
            s.side.append(z3.Implies(z3.Or(nanp(a), nanp(b)), nanp(r)))
            return F(n, bits=r)
        if op in ('fmul', 'fdiv') and s.sym_muldiv:
            # IEEE multiplication / division are exactly sign-symmetric for non-NaN results: op(a,b) = sign(a)^sign(b) applied to op(|a|,|b|).
            # The magnitude is an uninterpreted function of the magnitudes (commutative canonical form for mul); a NaN result keeps an
            # unconstrained bit pattern that may depend on the signed operands (payload / sign of a NaN are outside the model)
            a, b = bits
            sb = z3.BitVecVal(1 << (n - 1), n); ab = z3.BitVecVal((1 << (n - 1)) - 1, n)
            ma, mb = a & ab, b & ab
            if op == 'fmul':
                lo = z3.If(z3.ULE(ma, mb), ma, mb); hi = z3.If(z3.ULE(ma, mb), mb, ma)
                m = s.fp_uf('fmulabs', n, 2)(lo, hi)
            else:
                m = s.fp_uf('fdivabs', n, 2)(ma, mb)
            nn = s.fp_uf(op + 'nan', n, 2)(a, b)
            s.side.append(z3.Implies(z3.Or(nanp(a), nanp(b)), nanp(m)))
            s.side.append(z3.Or(nanp(m), (m & sb) == 0))
            s.side.append(nanp(nn))
            return F(n, bits=z3.If(nanp(m), nn, m | ((a ^ b) & sb)))
        if op == 'fmul':
            a, b = bits
            lo = z3.If(z3.ULE(a, b), a, b); hi = z3.If(z3.ULE(a, b), b, a)
            r = s.fp_uf(op, n, 2)(lo, hi)
            s.side.append(z3.Implies(z3.Or(nanp(a), nanp(b)), nanp(r)))
            return F(n, bits=r)
        if op == 'fdiv':
            r = s.fp_uf(op, n, 2)(*bits)
            s.side.append(z3.Implies(z3.Or(nanp(bits[0]), nanp(bits[1])), nanp(r)))
            return F(n, bits=r)
        if op == 'fma':
            a, b, c = bits
            lo = z3.If(z3.ULE(a, b), a, b); hi = z3.If(z3.ULE(a, b), b, a)
            r = s.fp_uf(op, n, 3)(lo, hi, c)
            s.side.append(z3.Implies(z3.Or(nanp(a), nanp(b), nanp(c)), nanp(r)))
            return F(n, bits=r)
        if op == 'sqrt':
            a = bits[0]
            r = s.fp_uf(op, n, 1)(a)
            fa = z3.fpBVToFP(a, sort)
            s.side.append(z3.Implies(z3.Or(nanp(a), z3.fpLT(fa, z3.FPVal(0.0, sort))), nanp(r)))
            return F(n, bits=r)
        raise Unsupported('abstract ' + op)

    def fp_token(s, op, n, args):
        if op == 'fadd':
            return F(n, bits=bv(args[0].bits(), n) + bv(args[1].bits(), n))
        raise Unsupported('token-mode op ' + op)

    def cast(s, op, fty, tty, v, st=None):
        if isinstance(fty, VecT) and isinstance(tty, VecT) and fty.n == tty.n and op != 'bitcast':
            return [s.cast(op, fty.el, tty.el, x, st) for x in v]
        if op == 'bitcast':
            if isinstance(fty, PtrT): return v
            if isinstance(fty, VecT) and isinstance(tty, VecT) and fty.n == tty.n and isinstance(fty.el, PtrT): return v
            b, n = s.to_bits_reg(fty, v)
            return s.from_bits(tty, b)
        if op == 'addrspacecast': return v
        if op == 'trunc':
            if tty.n == 1:
                x = extract(0, 0, v)
                return bool(x) if isinstance(x, int) else (x == 1)
            return extract(tty.n - 1, 0, v)
        if op == 'zext':
            if fty.n == 1: return ite(v, 1, 0, tty.n) if not isinstance(v, bool) else int(v)
            return v if isinstance(v, int) else z3.ZeroExt(tty.n - fty.n, v)
        if op == 'sext':
            if fty.n == 1: return ite(v, mask(tty.n), 0, tty.n) if not isinstance(v, bool) else (mask(tty.n) if v else 0)
            return (tosigned(v, fty.n) & mask(tty.n)) if isinstance(v, int) else z3.SignExt(tty.n - fty.n, v)
        if op == 'ptrtoint':
            r = s.ptr_to_int(v)
            return extract(tty.n - 1, 0, r) if tty.n < 64 else r
        if op == 'inttoptr':
            return s.int_to_ptr(v)
        if op in ('sitofp', 'uitofp'):
            x = bv(v, fty.n) if fty.n > 1 else z3.If(zbool(v), z3.BitVecVal(1, 1), z3.BitVecVal(0, 1))
            r = (z3.fpSignedToFP if op == 'sitofp' else z3.fpUnsignedToFP)(RNE, x, FSORT[tty.n])
            if is_c(v): r = z3.simplify(r)
            return F(tty.n, fp=r)
        if op in ('fptosi', 'fptoui'):
            return s.fp_to_int(st, v, tty.n, op == 'fptosi', 'fresh')
        if op in ('fpext', 'fptrunc'):
            r = z3.fpFPToFP(RNE, v.fp(), FSORT[tty.n])
            if is_c(v._bits) and v._bits is not None: r = z3.simplify(r)
            return F(tty.n, fp=r)
        raise Unsupported('cast ' + op)

    def to_bits_reg(s, ty, v):
        """register (not memory) bit representation: i1 vectors are 1 bit per lane"""
        if isinstance(ty, IntT) and ty.n == 1:
            return (int(v) if isinstance(v, bool) else z3.If(v, z3.BitVecVal(1, 1), z3.BitVecVal(0, 1))), 1
        if isinstance(ty, VecT) and isinstance(ty.el, IntT) and ty.el.n == 1:
            parts = [((int(x) if isinstance(x, bool) else z3.If(x, z3.BitVecVal(1, 1), z3.BitVecVal(0, 1))), 1) for x in v]
            return concat_le(parts), ty.n
        return s.to_bits(ty, v)

    def fp_to_int(s, st, v, n, signed, on_overflow):
        """round-toward-zero conversion; on_overflow: 'fresh' (LLVM poison) or 'indefinite' (x86)"""
        f = v.fp(); fn = v.n
        sort = FSORT[fn]
        rz = z3.fpRoundToIntegral(z3.RTZ(), f)
        if signed:
            lo = z3.fpSignedToFP(RNE, z3.BitVecVal(1 << (n - 1), n), sort)      # -2^(n-1), exact
            inr = z3.And(z3.fpGEQ(rz, lo), z3.fpLT(rz, z3.fpNeg(lo)))
            conv = z3.fpToSBV(z3.RTZ(), f, z3.BitVecSort(n))
        else:
            hi = z3.fpMul(RNE, z3.fpUnsignedToFP(RNE, z3.BitVecVal(1 << (n - 1), n), sort), z3.FPVal(2.0, sort))
            inr = z3.And(z3.fpGEQ(rz, z3.FPVal(0.0, sort)), z3.fpLT(rz, hi))
            conv = z3.fpToUBV(z3.RTZ(), f, z3.BitVecSort(n))
        if on_overflow == 'indefinite':
            bad = z3.BitVecVal(1 << (n - 1), n) if signed else z3.BitVecVal(mask(n), n)
        else:
            bad = fresh('ubfptoint', n)
            if st is not None: s.ub_note(st, z3.Not(inr), 'fptosi/fptoui out of range')
        r = z3.If(inr, conv, bad)
        if is_c(v._bits) and v._bits is not None:
            r = z3.simplify(r)
            if z3.is_bv_value(r): return r.as_long()
        return r

    def select1(s, c, ty, a, b):
        if isinstance(c, bool): return a if c else b
        if isinstance(ty, FloatT):
            if a is b: return a
            r = F(ty.n, bits=z3.If(c, bv(a.bits(), ty.n), bv(b.bits(), ty.n)))
            if a._fp is not None and b._fp is not None:
                r._fp = z3.If(c, a._fp, b._fp)
            return r
        if isinstance(ty, IntT):
            return ite(c, a, b, ty.n)
        if isinstance(ty, PtrT):
            return s.merge_ptr(c, a, b)
        if isinstance(ty, (VecT, ArrT)):
            return [s.select1(c, ty.el, x, y) for x, y in zip(a, b)]
        if isinstance(ty, StructT):
            return [s.select1(c, f, x, y) for f, x, y in zip(ty.fields, a, b)]
        raise Unsupported('select %r' % (ty,))

    def merge_ptr(s, c, a, b):
        if a.rid == b.rid:
            if is_c(a.off) and is_c(b.off) and a.off == b.off: return a
            return Ptr(a.rid, z3.If(c, bv(a.off, 64), bv(b.off, 64)), math.gcd(math.gcd(a.hint or 0, b.hint or 0), math.gcd(a.off if is_c(a.off) else 0, b.off if is_c(b.off) else 0)))
        return Ptr(None, z3.If(c, s.ptr_to_int(a), s.ptr_to_int(b)))

    # ------------------------------------------------------------ gep / memory
    def gep(s, base, sty, idx):
        """idx: list of (type, value)"""
        off_c = 0; sym = []; hint = base.hint or 0
        ty = sty
        first = True
        for (ity, i) in idx:
            if first:
                scale = stride(ty); first = False
            elif isinstance(ty, StructT):
                if not is_c(i): raise Unsupported('symbolic struct index')
                off_c += field_offset(ty, i); ty = ty.fields[i]; continue
            elif isinstance(ty, (ArrT, VecT)):
                ty = ty.el; scale = stride(ty)
            else:
                raise Unsupported('gep into %r' % (ty,))
            n = ity.n
            if is_c(i):
                off_c += tosigned(i, n) * scale
            else:
                x = i if n == 64 else z3.SignExt(64 - n, i)
                sym.append(x * scale if scale != 1 else x)
                hint = math.gcd(hint, scale)
        if not sym:
            if is_c(base.off): return Ptr(base.rid, base.off + off_c, base.hint)
            return Ptr(base.rid, base.off + off_c if off_c else base.off, base.hint)
        off = sym[0]
        for x in sym[1:]: off = off + x
        if off_c: off = off + z3.BitVecVal(off_c & mask(64), 64)
        if is_c(base.off):
            if base.off: off = off + z3.BitVecVal(base.off & mask(64), 64)
            hint = math.gcd(hint, abs(base.off + off_c))
        else:
            off = off + base.off
            hint = math.gcd(hint, abs(off_c))
        return Ptr(base.rid, off, hint)

    def pc_expr(s, st):
        return list(st.pc)

    def load(s, st, ty, p, align, atomic=False):
        nb = sizeof(ty)
        if p.rid is None:
            raise Unsupported('load through integer/NULL pointer %r' % (p,))
        r = s.regions[p.rid]
        if r.kind == 'ext':
            addr = s.ptr_to_int(p)
            s.accesses.append((list(st.pc), addr, nb, align or 1, 'r', p.rid, p.off))
            if isinstance(ty, (ArrT, StructT)): raise Unsupported('aggregate load from ext')
            if isinstance(ty, PtrT): raise Unsupported('pointer load from ext memory')
            parts = [(z3.Select(st.ext, addr + k if k else addr), 8) for k in range(nb)]
            return s.from_bits(ty, concat_le(parts))
        if r.kind == 'func': raise Unsupported('load from function')
        cells = s.cells_of(st, p.rid)
        s.check_align(st, r, p, align, nb)
        if is_c(p.off):
            if p.off < 0 or p.off + nb > r.size:
                s.obligs.append(('inbounds', list(st.pc), z3.BoolVal(False), 'load %d bytes at %d of region %s(size %d)' % (nb, p.off, r.name, r.size)))
                return s.undef_value(ty, 'oob')
            return s.read_cells(cells, p.off, ty, st, p.rid)
        step = p.hint or 1
        step = math.gcd(step, nb) if step else 1
        cands = list(range(0, r.size - nb + 1, step))
        if len(cands) > 4096: raise Unsupported('symbolic load: %d candidates' % len(cands))
        s.obligs.append(('inbounds', list(st.pc), z3.Or(*[p.off == c for c in cands]) if cands else z3.BoolVal(False),
                         'symbolic-offset load of %d bytes from %s' % (nb, r.name)))
        res = None
        for c in reversed(cands):
            v = s.read_cells(cells, c, ty, st, p.rid)
            res = v if res is None else s.select1(p.off == c, ty, v, res)
        return res

    def check_align(s, st, r, p, align, nb):
        if not align or align <= 1: return
        if is_c(p.off):
            if (r.align or 1) % align == 0 and p.off % align == 0: return
            if (r.align or 1) % align != 0 and r.kind in ('alloca', 'global'):
                s.obligs.append(('align', list(st.pc), z3.BoolVal(False), 'access align %d on %s (align %s) + %d' % (align, r.name, r.align, p.off)))
                return
            s.obligs.append(('align', list(st.pc), z3.BoolVal(False), 'access align %d at offset %d of %s' % (align, p.off, r.name)))
        else:
            s.obligs.append(('align', list(st.pc), z3.URem(p.off, z3.BitVecVal(align, 64)) == 0, 'access align %d at symbolic offset of %s' % (align, r.name)))

    def store(s, st, ty, v, p, align):
        nb = sizeof(ty)
        if p.rid is None:
            raise Unsupported('store through integer/NULL pointer')
        r = s.regions[p.rid]
        if r.kind == 'ext':
            addr = s.ptr_to_int(p)
            s.accesses.append((list(st.pc), addr, nb, align or 1, 'w', p.rid, p.off))
            if isinstance(ty, (ArrT, StructT, PtrT)): raise Unsupported('aggregate/pointer store to ext')
            b, n = s.to_bits(ty, v)
            s.writes.append((list(st.pc), p.rid, p.off, nb, b))
            m = st.ext
            for k in range(nb):
                m = z3.Store(m, addr + k if k else addr, bv(extract(8 * k + 7, 8 * k, b), 8))
            st.ext = m
            return
        cells = s.cells_of(st, p.rid)
        s.check_align(st, r, p, align, nb)
        if is_c(p.off):
            if p.off < 0 or p.off + nb > r.size:
                s.obligs.append(('inbounds', list(st.pc), z3.BoolVal(False), 'store %d bytes at %d of region %s(size %d)' % (nb, p.off, r.name, r.size)))
                return
            s.write_cells(cells, p.off, ty, v)
            return
        if isinstance(ty, (ArrT, StructT, PtrT)): raise Unsupported('symbolic aggregate store')
        step = math.gcd(p.hint or 1, nb)
        cands = list(range(0, r.size - nb + 1, step))
        if len(cands) > 4096: raise Unsupported('symbolic store: %d candidates' % len(cands))
        s.obligs.append(('inbounds', list(st.pc), z3.Or(*[p.off == c for c in cands]) if cands else z3.BoolVal(False),
                         'symbolic-offset store of %d bytes to %s' % (nb, r.name)))
        b, n = s.to_bits(ty, v)
        for c in cands:
            cond = (p.off == c)
            for k in range(nb):
                old = s.cells_bits(cells, c + k, 1)
                new = extract(8 * k + 7, 8 * k, b)
                cells[c + k] = (z3.If(cond, bv(new, 8), bv(old, 8)), 0)

    # ------------------------------------------------------------ control
    def ipd(s, f):
        if f.name not in s.ipd_cache:
            s.ipd_cache[f.name] = llir.postdominators(f)
        return s.ipd_cache[f.name]

    def cyclic_blocks(s, f):
        """blocks of f that lie on a cycle of the control-flow graph"""
        c = getattr(f, '_cyclic', None)
        if c is None:
            succ = {b: list(f.blocks[b].succs) for b in f.order}
            c = set()
            for b0 in f.order:
                seen = set(); st = list(succ[b0])
                while st:
                    x = st.pop()
                    if x == b0: c.add(b0); break
                    if x in seen or x not in succ: continue
                    seen.add(x); st.extend(succ[x])
            f._cyclic = c
        return c

    def feasible(s, pc, cond):
        """-> (can_be_true, can_be_false) using the solver; unknown counts as feasible.
        Side facts (theorems about uninterpreted FP applications) are added only when the functions they talk about occur in the
        query (transitively): dropping a side fact only weakens the premises, so 'infeasible' stays sound."""
        # a fresh (non-incremental) solver per query: z3's incremental core skips the preprocessing tactics and is ~50x slower on
        # these mixed FP / bit-vector / UF queries
        common = list(s.assume)
        need = set()
        for a in list(pc) + [cond]: need |= s._ufs(a)
        if need and s.side:
            changed = True; inc = [False] * len(s.side)
            while changed:
                changed = False
                for i, a in enumerate(s.side):
                    if inc[i]: continue
                    u = s._ufs(a)
                    if u & need:
                        inc[i] = True; need |= u; changed = True
            common += [a for i, a in enumerate(s.side) if inc[i]]
        common += list(pc)
        def chk(c):
            sol = z3.Solver(); sol.set('timeout', s.fork_timeout_ms)
            sol.add(*common); sol.add(c)
            return sol.check()
        r1 = chk(cond); t = r1 != z3.unsat
        r2 = chk(z3.Not(cond)); f = r2 != z3.unsat
        if r1 == z3.unknown or r2 == z3.unknown: s.fork_unknown = getattr(s, 'fork_unknown', 0) + 1
        return t, f

    def _ufs(s, e):
        """names of the uninterpreted functions (arity > 0) applied in e (memoised per AST id)"""
        memo = s.__dict__.setdefault('_ufs_memo', {})
        i = e.get_id()
        r = memo.get(i)
        if r is not None: return r[0]
        out = set(); seen = set(); st = [e]
        while st:
            x = st.pop()
            j = x.get_id()
            if j in seen: continue
            seen.add(j)
            if z3.is_app(x):
                d = x.decl()
                if d.kind() == z3.Z3_OP_UNINTERPRETED and d.arity() > 0: out.add(d.name())
                st.extend(x.children())
        memo[i] = (frozenset(out), e)
        return memo[i][0]

    def run(s, fname, args):
        f = s.mod.funcs[fname]
        st = State(); st.ext = s.ext0
        st = s.call_function(f, args, st)
        return st

    def call_function(s, f, args, st):
        s.depth += 1
        if s.depth > s.max_depth: raise Unsupported('call depth')
        saved = st.regs
        st.regs = {}
        for (ty, name, attrs), a in zip(f.params, args):
            st.regs[name] = a
        saved_block, saved_prev, saved_pd = st.block, st.prev, st.phis_done
        st.block = f.entry(); st.prev = None; st.phis_done = True
        frame = {'unwind': {}}
        st = s.exec_until(f, st, 'EXIT', frame)
        st.regs = saved
        st.block, st.prev, st.phis_done = saved_block, saved_prev, saved_pd
        s.depth -= 1
        return st

    def do_phis(s, f, st):
        b = f.blocks[st.block]
        if b.phis:
            vals = []
            for ph in b.phis:
                for v, l in ph.extra['inc']:
                    if l == st.prev:
                        vals.append(s.val(st, (ph.ty, v))); break
                else:
                    raise EncoderError('phi without incoming for %s in %s' % (st.prev, st.block))
            for ph, v in zip(b.phis, vals): st.regs[ph.res] = v
        st.phis_done = True

    def exec_until(s, f, st, stop, frame):
        """run st from st.block until control reaches `stop` (phis of stop evaluated) or the state dies"""
        while True:
            if st.dead: return st
            if st.block == stop:
                if stop != 'EXIT' and not st.phis_done: s.do_phis(f, st)
                return st
            if st.block == 'EXIT':
                raise EncoderError('reached EXIT before stop block %s' % stop)
            if not st.phis_done: s.do_phis(f, st)
            b = f.blocks[st.block]
            for ins in b.instrs[:-1]:
                s.step(f, st, ins)
                if st.dead: return st
            term = b.instrs[-1]
            s.steps += 1
            if s.steps > s.max_steps: raise Unsupported('step budget exceeded')
            op = term.op
            if op == 'ret':
                st.ret = s.val(st, term.ops[0]) if term.ops else None
                st.prev = st.block; st.block = 'EXIT'; st.phis_done = True
            elif op == 'br':
                labels = term.extra['labels']
                if len(labels) == 1:
                    s.goto(st, labels[0])
                else:
                    c = s.val(st, term.ops[0])
                    if not isinstance(c, bool):
                        c2 = z3.simplify(c)
                        if z3.is_true(c2): c = True
                        elif z3.is_false(c2): c = False
                        else: c = c2
                    if isinstance(c, bool):
                        s.goto(st, labels[0] if c else labels[1])
                    else:
                        st = s.fork(f, st, b, c, labels, frame)
            elif op == 'switch':
                v = s.val(st, term.ops[0])
                if not is_c(v):
                    v2 = z3.simplify(v)
                    if z3.is_bv_value(v2): v = v2.as_long()
                    else:
                        st = s.sym_switch(f, st, b, v2, term, frame)
                        continue
                tgt = term.extra['default']
                for (cty, cop), l in term.extra['cases']:
                    if cop[1] == v: tgt = l; break
                s.goto(st, tgt)
            elif op == 'unreachable':
                st.dead = True; st.outcome = 'unreachable'
                s.obligs.append(('unreachable', list(st.pc), z3.BoolVal(False), 'unreachable executed in ' + f.name))
            elif op == 'invoke':
                r = s.do_call(f, st, term)
                if st.dead: return st
                if st.outcome and st.outcome.startswith('throws'):
                    st.dead = True; return st
                s.goto(st, term.extra['normal'])
            elif op == 'resume':
                st.dead = True; st.outcome = 'resume'
            else:
                raise Unsupported('terminator ' + op)

    def sym_switch(s, f, st, b, v, term, frame):
        """symbolic switch: every feasible case is executed to the switch block's immediate post-dominator, then merged"""
        n = v.size()
        arms = []; seen = []
        for (cty, cop), l in term.extra['cases']:
            arms.append((v == z3.BitVecVal(cop[1], n), l)); seen.append(cop[1])
        arms.append((z3.And(*[v != z3.BitVecVal(c, n) for c in seen]) if seen else z3.BoolVal(True), term.extra['default']))
        join = s.ipd(f)[b.name]
        done = []
        for cond, label in arms:
            s.forks += 1
            t_ok, _ = s.feasible(st.pc, cond)
            if not t_ok: continue
            t = st.clone(); t.pc.append(cond)
            s.goto(t, label)
            t = s.exec_until(f, t, join, {'unwind': dict(frame['unwind'])})
            if not t.dead: done.append((cond, t))
        if not done:
            st.dead = True; st.outcome = 'infeasible'; return st
        r = done[-1][1]
        for cond, t in reversed(done[:-1]):
            r = s.merge(cond, t, r, st, f)
        r.pc = list(st.pc)
        return r

    def goto(s, st, label):
        st.prev = st.block; st.block = label; st.phis_done = False

    def fork(s, f, st, b, c, labels, frame):
        s.forks += 1
        # lazy mode: branches inside cycles of the CFG (loop tests and everything in loop bodies) are explored on both sides without
        # asking the solver; branches outside loops (which guard e.g. recursive calls) are still checked
        t_ok, f_ok = (True, True) if (s.lazy_forks and b.name in s.cyclic_blocks(f)) else s.feasible(st.pc, c)
        if t_ok and not f_ok:
            st.pc.append(c); s.goto(st, labels[0]); return st
        if f_ok and not t_ok:
            st.pc.append(z3.Not(c)); s.goto(st, labels[1]); return st
        if not t_ok and not f_ok:
            st.dead = True; st.outcome = 'infeasible'; return st
        # unwinding bound for symbolic loops: count forks at this block on the current path
        key = b.name
        cnt = frame['unwind'].get(key, 0)
        s.max_trip = max(s.max_trip, cnt)
        if cnt >= s.max_unwind:
            s.obligs.append(('unwind', list(st.pc), z3.BoolVal(False), 'loop at %s in %s not exited after %d symbolic iterations' % (b.name, f.name, cnt)))
            s.unwind_hits.append((f.name, b.name, cnt))
            st.dead = True; st.outcome = 'unwind'
            return st
        join = s.ipd(f)[b.name]
        sub = []
        for cond, label in ((c, labels[0]), (z3.Not(c), labels[1])):
            t = st.clone(); t.pc.append(cond)
            fr = {'unwind': dict(frame['unwind'])}; fr['unwind'][key] = cnt + 1
            s.goto(t, label)
            t = s.exec_until(f, t, join, fr)
            sub.append(t)
        a, bb = sub
        if a.dead and bb.dead:
            st.dead = True; st.outcome = a.outcome; return st
        if a.dead:
            r = bb; r.pc = list(st.pc) + [z3.Not(c)] if False else bb.pc
            return r
        if bb.dead:
            return a
        return s.merge(c, a, bb, st, f)

    def regtypes(s, f):
        rt = getattr(f, '_regtypes', None)
        if rt is None:
            rt = {name: ty for ty, name, _ in f.params}
            for bl in f.blocks.values():
                for ins in list(bl.phis) + list(bl.instrs):
                    if ins.res is not None: rt[ins.res] = ins.ty
            f._regtypes = rt
        return rt

    def merge(s, c, a, b, parent, f=None):
        r = a
        rt = s.regtypes(f) if f is not None else {}
        # registers: only those that differ (phi results of the join block, or return value)
        for k, va in list(a.regs.items()):
            vb = b.regs.get(k)
            if vb is None or va is vb: continue
            if k in parent.regs and parent.regs[k] is va and parent.regs[k] is vb: continue
            r.regs[k] = s.merge_val(c, va, vb, rt.get(k))
        if a.block == 'EXIT':
            if a.ret is not None:
                r.ret = s.merge_val(c, a.ret, b.ret, f.ret if f is not None else None)
        # memory
        for rid in set(a.mem) | set(b.mem):
            ca = a.mem.get(rid); cb = b.mem.get(rid)
            if ca is None or cb is None:
                # region created on one side only (alloca inside branch): keep whichever exists
                r.mem[rid] = ca if ca is not None else cb; continue
            out = list(ca)
            for i in range(len(ca)):
                x, y = ca[i], cb[i]
                if x is y or (x is not None and y is not None and x[0] is y[0] and x[1] == y[1]): continue
                if (x is None or y is None) and isinstance((x or y)[0], str):
                    out[i] = x or y; continue      # pointer cell written on one side only (the other side never initialised the slot)
                if x is not None and y is not None and (isinstance(x[0], str) or isinstance(y[0], str)):
                    if isinstance(x[0], str) and isinstance(y[0], str) and x[0] == 'ptr' and y[0] == 'ptr':
                        out[i] = ('ptr', s.merge_ptr(c, x[1], y[1]))
                    elif isinstance(x[0], str) and isinstance(y[0], str) and x[0] == 'ptrtail' and y[0] == 'ptrtail':
                        out[i] = x
                    else:
                        raise Unsupported('merge pointer/non-pointer memory')
                    continue
                bx = s.cells_bits(ca, i, 1); by = s.cells_bits(cb, i, 1)
                out[i] = (z3.If(c, bv(bx, 8), bv(by, 8)), 0) if not (is_c(bx) and is_c(by) and bx == by) else (bx, 0)
            r.mem[rid] = out
        if not a.ext.eq(b.ext):
            r.ext = z3.If(c, a.ext, b.ext)
        # path condition back to the parent's (the two sides partition it)
        r.pc = list(parent.pc)
        # call traces: keep both, guarded
        if len(a.trace) != len(parent.trace) or len(b.trace) != len(parent.trace):
            n0 = len(parent.trace)
            r.trace = parent.trace[:n0] + [(('if', c),) + e for e in a.trace[n0:]] + [(('if', z3.Not(c)),) + e for e in b.trace[n0:]]
        if a.outcome != b.outcome:
            r.outcome = ('ite', c, a.outcome, b.outcome)
        return r

    def merge_val(s, c, a, b, ty=None):
        if a is b: return a
        if isinstance(a, F):
            return s.select1(c, FloatT(a.n), a, b)
        if isinstance(a, Ptr): return s.merge_ptr(c, a, b)
        if isinstance(a, list):
            if isinstance(ty, (VecT, ArrT)): return [s.merge_val(c, x, y, ty.el) for x, y in zip(a, b)]
            if isinstance(ty, StructT): return [s.merge_val(c, x, y, t) for x, y, t in zip(a, b, ty.fields)]
            return [s.merge_val(c, x, y) for x, y in zip(a, b)]
        if isinstance(a, (bool, z3.BoolRef)) or isinstance(b, (bool, z3.BoolRef)):
            if isinstance(a, bool) and isinstance(b, bool) and a == b: return a
            return z3.If(c, zbool(a), zbool(b))
        n = a.size() if not isinstance(a, int) else (b.size() if not isinstance(b, int) else None)
        if n is None:
            if a == b: return a
            if isinstance(ty, IntT): n = ty.n
            else: raise EncoderError('merge of two different concrete ints without width: need width')
        return ite(c, a, b, n)

    # ------------------------------------------------------------ instructions
    def step(s, f, st, ins):
        s.steps += 1
        if s.steps > s.max_steps: raise Unsupported('step budget exceeded')
        op = ins.op
        R = st.regs
        s.cur_ins = ins
        if op in llir.BINOPS:
            a = s.val(st, ins.ops[0]); b = s.val(st, ins.ops[1])
            R[ins.res] = s.binop(op, ins.ty, a, b, ins.extra['flags'], st)
        elif op in llir.FBINOPS:
            a = s.val(st, ins.ops[0]); b = s.val(st, ins.ops[1])
            fm = ins.extra['fmf']
            if isinstance(ins.ty, VecT):
                R[ins.res] = [s.fp_arith(st, op, ins.ty.el.n, [x, y], fm) for x, y in zip(a, b)]
            else:
                R[ins.res] = s.fp_arith(st, op, ins.ty.n, [a, b], fm)
        elif op == 'fneg':
            a = s.val(st, ins.ops[0])
            def neg(x):
                if x._bits is not None:
                    return F(x.n, bits=(x._bits ^ (1 << (x.n - 1))) if is_c(x._bits) else (x._bits ^ z3.BitVecVal(1 << (x.n - 1), x.n)))
                return F(x.n, fp=z3.fpNeg(x._fp))
            R[ins.res] = [neg(x) for x in a] if isinstance(ins.ty, VecT) else neg(a)
        elif op == 'icmp':
            a = s.val(st, ins.ops[0]); b = s.val(st, ins.ops[1]); ty = ins.ops[0][0]; pred = ins.extra['pred']
            if isinstance(ty, VecT):
                R[ins.res] = [s.icmp1(pred, ty.el.n if isinstance(ty.el, IntT) else 64, x, y) for x, y in zip(a, b)]
            else:
                R[ins.res] = s.icmp1(pred, ty.n if isinstance(ty, IntT) else 64, a, b)
        elif op == 'fcmp':
            a = s.val(st, ins.ops[0]); b = s.val(st, ins.ops[1]); ty = ins.ops[0][0]; pred = ins.extra['pred']
            if ins.extra['fmf']:
                s.fmf_seen.append(('fcmp', tuple(ins.extra['fmf'])))
                R[ins.res] = s.undef_value(ins.ty, 'fastmath')
            elif isinstance(ty, VecT):
                R[ins.res] = [s.fcmp1(pred, x, y) for x, y in zip(a, b)]
            else:
                R[ins.res] = s.fcmp1(pred, a, b)
        elif op == 'select':
            c = s.val(st, ins.ops[0]); a = s.val(st, ins.ops[1]); b = s.val(st, ins.ops[2])
            cty = ins.ops[0][0]
            if isinstance(cty, VecT):
                R[ins.res] = [s.select1(ci, ins.ty.el, x, y) for ci, x, y in zip(c, a, b)]
            else:
                R[ins.res] = s.select1(c, ins.ty, a, b)
        elif op in llir.CASTS:
            v = s.val(st, ins.ops[0])
            R[ins.res] = s.cast(op, ins.ops[0][0], ins.ty, v, st)
        elif op == 'freeze':
            R[ins.res] = s.val(st, ins.ops[0])
        elif op == 'shufflevector':
            a = s.val(st, ins.ops[0]); b = s.val(st, ins.ops[1]); mty, mop = ins.ops[2]
            n = ins.ops[0][0].n
            if mop[0] == 'zero': idxs = [0] * mty.n
            elif mop[0] in ('undef', 'poison'): idxs = [None] * mty.n
            else: idxs = [(o[1] if o[0] == 'int' else None) for _, o in mop[1]]
            out = []
            for i in idxs:
                if i is None:
                    u = s.undef_value(ins.ty.el, 'shufundef')
                    if mty.n > n and not isinstance(ins.ty.el, IntT) or (isinstance(ins.ty.el, IntT) and ins.ty.el.n > 1 and mty.n > n):
                        # widening cast (_mm256_castsi128_si256 & co.): the new lanes are undefined.  A result that depends on them cannot be
                        # proved; such an obligation is re-proved with the lanes zero (what VEX-encoded 128-bit producers leave there) and
                        # reported as UB-NOTE, never silently assumed
                        uv = u._bits if isinstance(u, F) else u
                        s.ubvals.append((uv, [z3.BitVecVal(0, uv.size())]))
                        s.ub_note(st, True, 'undefined upper lanes of a 128->256/512-bit widening cast')
                    out.append(u)
                elif i < n: out.append(a[i])
                else: out.append(b[i - n])
            R[ins.res] = out
        elif op == 'extractelement':
            a = s.val(st, ins.ops[0]); i = s.val(st, ins.ops[1])
            R[ins.res] = s.vec_index(st, ins.ops[0][0], a, ins.ops[1][0], i)
        elif op == 'insertelement':
            a = s.val(st, ins.ops[0]); e = s.val(st, ins.ops[1]); i = s.val(st, ins.ops[2])
            ty = ins.ty
            if is_c(i):
                out = list(a)
                if i < ty.n: out[i] = e
                R[ins.res] = out
            else:
                n = ins.ops[2][0].n
                s.ub_note(st, z3.UGE(i, ty.n), 'insertelement index out of range')
                R[ins.res] = [s.select1(i == k, ty.el, e, a[k]) for k in range(ty.n)]
        elif op == 'extractvalue':
            v = s.val(st, ins.ops[0])
            for k in ins.extra['idx']: v = v[k]
            R[ins.res] = v
        elif op == 'insertvalue':
            v = s.val(st, ins.ops[0]); e = s.val(st, ins.ops[1])
            def ins_(v, idx):
                v = list(v)
                if len(idx) == 1: v[idx[0]] = e
                else: v[idx[0]] = ins_(v[idx[0]], idx[1:])
                return v
            R[ins.res] = ins_(v, ins.extra['idx'])
        elif op == 'alloca':
            ty = ins.extra['ty']; n = 1
            if ins.ops:
                n = s.val(st, ins.ops[0])
                if not is_c(n): raise Unsupported('symbolic alloca count')
            size = stride(ty) * n
            rid = s.new_region('alloca', size, ins.extra['align'] or alignof(ty), '%s:%s' % (f.name, ins.res))
            st.mem[rid] = [None] * size
            R[ins.res] = Ptr(rid, 0)
        elif op == 'load':
            p = s.val(st, ins.ops[0])
            R[ins.res] = s.load(st, ins.ty, p, ins.extra['align'])
        elif op == 'store':
            v = s.val(st, ins.ops[0]); p = s.val(st, ins.ops[1])
            s.store(st, ins.ops[0][0], v, p, ins.extra['align'])
        elif op == 'getelementptr':
            base = s.val(st, ins.ops[0])
            if isinstance(base, list): raise Unsupported('vector gep')
            idx = [(t, s.val(st, (t, o))) for t, o in ins.ops[1:]]
            R[ins.res] = s.gep(base, ins.extra['sty'], idx)
        elif op == 'call':
            s.do_call(f, st, ins)
        elif op == 'landingpad':
            R[ins.res] = s.undef_value(ins.ty, 'lpad')
        elif op == 'fence':
            pass
        else:
            raise Unsupported('instruction ' + op + ' : ' + ins.text)

    def vec_index(s, st, vty, a, ity, i):
        if is_c(i):
            if i >= vty.n:
                s.ub_note(st, True, 'extractelement index out of range'); return s.undef_value(vty.el, 'oobidx')
            return a[i]
        s.ub_note(st, z3.UGE(i, vty.n), 'extractelement index out of range')
        res = s.undef_value(vty.el, 'oobidx')
        for k in reversed(range(vty.n)):
            res = s.select1(i == k, vty.el, a[k], res)
        return res

    def do_call(s, f, st, ins):
        from . import intrinsics
        callee = ins.extra['callee']
        args = [s.val(st, a) for a in ins.ops]
        if callee[0] == 'asm':
            r = intrinsics.inline_asm(s, st, ins, args)
        elif callee[0] == 'global':
            name = callee[1]
            if name in s.stubs:
                r = s.stubs[name](s, st, ins, args)
            elif name.startswith('@llvm.'):
                r = intrinsics.call_intrinsic(s, st, ins, name, args)
            elif name in s.mod.funcs:
                g = s.mod.funcs[name]
                st2 = s.call_function(g, args, st)
                if st2 is not st:
                    # state object identity may change through merges: copy back
                    st.__dict__.update(st2.__dict__)
                r = st.ret; st.ret = None
                if st.dead: return None
            else:
                r = intrinsics.call_external(s, st, ins, name, args)
        else:
            raise Unsupported('indirect call')
        if ins.res is not None:
            st.regs[ins.res] = r
        return r
