"""Symbolic harness: build symbolic inputs for a wrapper, run the executor, expose per-lane results,
decide obligations with the solver portfolio (z3 in-process, cvc5 CLI fall-back), de-duplicate alpha-equivalent lanes."""
import os, re, subprocess, time, tempfile, hashlib
import z3
from . import llir, symex, gen
from .symex import F, Ptr, bv, mask, is_c, concat_le, extract, Executor, Unsupported, EncoderError
from .llir import IntT, FloatT, PtrT, VecT
from .gen import TYPES, lanes, is_avx512


class Sym:
    """symbolic inputs / outputs of one wrapper run"""
    pass


def lane_syms(name, n, w):
    return [z3.BitVec('%s%d' % (name, i), w) for i in range(n)]


def wrap_lane(ty, b):
    return F(TYPES[ty][1], bits=b) if TYPES[ty][3] == 'fp' else b


def build_args(ex, k, f):
    """-> IR argument values, and description of the symbolic inputs: list of dict(kind, ty, lanes|sym|bools)"""
    names = 'abcdefgh'
    args = []; desc = []
    for i, ((kind, ty), (pty, pname, pattrs)) in enumerate(zip(k.args, f.params)):
        nm = names[i]
        if kind == 'v':
            w = TYPES[ty][1]; n = lanes(ty, k.arch)
            ls = lane_syms(nm, n, w)
            if isinstance(pty, PtrT):   # emulated: passed by pointer
                raise Unsupported('by-pointer register argument')
            conc = k.meta.get('concrete', {}).get(nm)
            if conc is not None:
                # concrete operand (special-value obligations): the executor folds the whole kernel with exact IEEE semantics
                val = ex.from_bits(pty, concat_le([(int(x), w) for x in conc]))
                args.append(val); desc.append(dict(kind='v', ty=ty, lanes=[z3.BitVecVal(int(x), w) for x in conc], name=nm, concrete=True))
                continue
            lm = k.meta.get('lanemap')
            if lm is not None:
                # lanes share symbols as the map says (e.g. [0,1,1,1]: two independent values); the distinct symbols are listed first
                ls = [ls[j] for j in lm]
            val = ex.from_bits(pty, concat_le([(x, w) for x in ls]))
            args.append(val); desc.append(dict(kind='v', ty=ty, lanes=ls, name=nm))
        elif kind == 'm':
            w = TYPES[ty][1]; n = lanes(ty, k.arch)
            bs = [z3.Bool('%s%d' % (nm, i)) for i in range(n)]
            if isinstance(pty, IntT):
                bits = concat_le([(z3.If(b, z3.BitVecVal(1, 1), z3.BitVecVal(0, 1)), 1) for b in bs])
                if pty.n > n: bits = z3.ZeroExt(pty.n - n, bits)
                args.append(bits)
            else:
                ls = [z3.If(b, z3.BitVecVal(mask(w), w), z3.BitVecVal(0, w)) for b in bs]
                args.append(ex.from_bits(pty, concat_le([(x, w) for x in ls])))
            desc.append(dict(kind='m', ty=ty, bools=bs, name=nm))
        elif kind == 'b':
            sym = z3.Bool(nm)
            args.append(sym); desc.append(dict(kind='b', sym=sym, name=nm))
        elif kind in ('s', 'z'):
            sym = z3.BitVec(nm, pty.n)
            args.append(sym); desc.append(dict(kind=kind, sym=sym, name=nm, width=pty.n))
        elif kind == 'T':
            w = TYPES[ty][1]
            sym = z3.BitVec(nm, w)
            if isinstance(pty, IntT) and pty.n != w: raise Unsupported('scalar width')
            args.append(wrap_lane(ty, sym) if isinstance(pty, FloatT) else sym)
            desc.append(dict(kind='T', ty=ty, sym=sym, name=nm))
        elif kind in ('p', 'q', 'x'):
            if isinstance(pty, PtrT):
                p = ex.ext_pointer(nm)
                args.append(p); desc.append(dict(kind='ptr', ptr=p, name=nm, base=ex.regions[p.rid].base))
            elif isinstance(pty, IntT):
                sym = z3.BitVec(nm, pty.n)
                args.append(sym); desc.append(dict(kind='s', sym=sym, name=nm, width=pty.n))
            else:
                raise Unsupported('raw param type %r' % (pty,))
        else:
            raise Unsupported('arg kind ' + kind)
    return args, desc


def result_lanes(ex, k, f, ret):
    """-> for 'v': list of per-lane values (BV or F); 'm': list of per-lane (truth Bool, canonical Bool);
       'bool': Bool; 'u64'/'T': value"""
    rk, rty = k.ret
    fty = f.ret
    if rk == 'v':
        w = TYPES[rty][1]; n = lanes(rty, k.arch)
        if isinstance(fty, VecT) and isinstance(fty.el, FloatT) and TYPES[rty][3] == 'fp' and fty.el.n == w:
            return list(ret)
        b, nb = ex.to_bits(fty, ret)
        out = [extract((i + 1) * w - 1, i * w, b) for i in range(n)]
        return [wrap_lane(rty, x) for x in out]
    if rk == 'm':
        w = TYPES[rty][1]; n = lanes(rty, k.arch)
        if isinstance(fty, IntT):
            return [('k', extract(i, i, ret)) for i in range(n)]
        b, nb = ex.to_bits(fty, ret)
        return [('v', extract((i + 1) * w - 1, i * w, b)) for i in range(n)]
    if rk == 'bool':
        return ret
    if rk in ('u64', 'T', 'x'):
        return ret
    if rk == 'void':
        return None
    raise Unsupported('ret kind')


class MemView:
    """result of a wrapper that takes pointers: .val = return value (shaped as result_lanes), .byte(arg, off) = final memory byte"""

    def __init__(s, val, byte_fn):
        s.val = val; s._byte = byte_fn

    def byte(s, arg, off):
        return s._byte(arg, off)


class Run:
    """result of symbolically executing one wrapper"""

    def __init__(s, k, mod, fname=None, assume_fn=None, **exkw):
        s.k = k
        f = mod.funcs['@' + (fname or k.name)]
        s.f = f
        s.ex = Executor(mod, **exkw)
        s.args, s.desc = build_args(s.ex, k, f)
        if assume_fn:
            s.ex.assume = list(assume_fn(s))
        t0 = time.time()
        s.st = s.ex.run(f.name, s.args)
        s.enc_s = time.time() - t0
        if s.st.dead:
            raise Unsupported('all paths dead: %s' % s.st.outcome)
        s.res = result_lanes(s.ex, k, f, s.st.ret)
        ptrs = {d['name']: d for d in s.desc if d['kind'] == 'ptr'}
        if ptrs:
            s.res = MemView(s.res, s.final_byte)
            s.ptrs = ptrs
            s.mem0 = lambda arg, off: z3.Select(s.ex.ext0, ptrs[arg]['base'] + z3.BitVecVal(off, 64))

    def inp(s, i): return s.desc[i]

    def final_byte(s, arg, off):
        """byte of caller memory at ptr(arg)+off after the call, as a last-writer-wins chain over the executor's write log
        (off: int or BV64 offset relative to the pointer); pure bit-vector term, no array theory"""
        d = s.ptrs[arg]; rid = d['ptr'].rid
        offz = z3.BitVecVal(off & ((1 << 64) - 1), 64) if isinstance(off, int) else off
        r = z3.Select(s.ex.ext0, d['base'] + offz)
        for (pc, wrid, woff, nb, bits) in s.ex.writes:
            if wrid != rid:
                # a store through another pointer argument may alias: compare absolute addresses
                wb = s.ex.regions[wrid].base
                for k in range(nb):
                    c = (wb + bv(woff, 64) + k) == (d['base'] + offz)
                    c = z3.And(*(pc + [c])) if pc else c
                    r = z3.If(c, bv(extract(8 * k + 7, 8 * k, bits), 8), r)
                continue
            if isinstance(off, int) and is_c(woff):
                k = off - woff
                if 0 <= k < nb:
                    byte = bv(extract(8 * k + 7, 8 * k, bits), 8)
                    r = z3.If(z3.And(*pc), byte, r) if pc else byte
                continue
            for k in range(nb):
                c = (bv(woff, 64) + k) == offz
                c = z3.And(*(pc + [c])) if pc else c
                r = z3.If(c, bv(extract(8 * k + 7, 8 * k, bits), 8), r)
        return r


# ------------------------------------------------------------------ canonical forms for lane de-duplication
def canon_key(e, rename):
    """deterministic DFS serialisation of a z3 DAG with variables renamed through `rename` (dict name->role) and all
       other '!'-fresh constants numbered in order of first visit"""
    ids = {}; fresh_no = {}; out = []
    stack = [(e, False)]
    # iterative post-order with memo on ast id
    def visit(x):
        st = [(x, 0)]
        while st:
            node, state = st.pop()
            nid = node.get_id()
            if nid in ids:
                continue
            if state == 0:
                st.append((node, 1))
                for c in reversed(node.children()):
                    if c.get_id() not in ids: st.append((c, 0))
            else:
                ch = tuple(ids[c.get_id()] for c in node.children())
                if z3.is_const(node) and node.decl().kind() == z3.Z3_OP_UNINTERPRETED:
                    nm = node.decl().name()
                    if nm in rename: tok = ('var', rename[nm])
                    elif '!' in nm:
                        if nm not in fresh_no: fresh_no[nm] = len(fresh_no)
                        tok = ('fresh', fresh_no[nm], node.sort().sexpr() if False else str(node.sort()))
                    else: tok = ('glob', nm)
                elif z3.is_app(node):
                    d = node.decl()
                    if z3.is_bv_value(node): tok = ('bvc', node.as_long(), node.size())
                    else: tok = ('app', d.kind(), d.name() if d.kind() == z3.Z3_OP_UNINTERPRETED else '', tuple(node.params()) if d.kind() in (z3.Z3_OP_EXTRACT, z3.Z3_OP_ZERO_EXT, z3.Z3_OP_SIGN_EXT, z3.Z3_OP_ROTATE_LEFT, z3.Z3_OP_ROTATE_RIGHT, z3.Z3_OP_REPEAT, z3.Z3_OP_FPA_TO_FP, z3.Z3_OP_FPA_TO_SBV, z3.Z3_OP_FPA_TO_UBV, z3.Z3_OP_FPA_TO_FP_UNSIGNED) else (), str(node.sort()) if not node.children() else '')
                else:
                    tok = ('other', str(node))
                ids[nid] = len(out)
                out.append((tok, ch))
    visit(e)
    return hashlib.sha1(repr(out).encode()).hexdigest()


def consts_of(e, memo=None):
    seen = set(); out = set(); st = [e]
    while st:
        x = st.pop()
        i = x.get_id()
        if i in seen: continue
        seen.add(i)
        if z3.is_const(x) and x.decl().kind() == z3.Z3_OP_UNINTERPRETED:
            out.add(x.decl().name())
        else:
            st.extend(x.children())
    return out


LAZY_IDS = set()


class Decider:
    """decides obligations; keeps statistics for the evidence"""

    def __init__(s, timeout_s=20, use_cvc5=True, thorough=False):
        s.timeout_s = timeout_s; s.use_cvc5 = use_cvc5
        s.queries = 0; s.solver_s = 0.0; s.by_simplifier = 0; s.by_search = 0; s.cvc5_used = 0
        s.dedup = 0; s.samples = []
        s.cache = {}
        s._ncache = {}

    def slice(s, assumptions, goal):
        """cone of influence: keep the assumptions that (transitively) share a symbol with the negated goal.  Dropping an
        assumption only weakens the premise, so 'unsat' stays valid; the dropped ones talk about disjoint symbols and are
        satisfiable on their own (checked once per run by the vacuity witness), so 'sat' models extend to them."""
        if LAZY_IDS:
            # definitional equalities naming memory bytes: never needed for 'unsat' (the names are otherwise unconstrained); they are
            # re-added when a model is completed for replay
            assumptions = [a for a in assumptions if a.get_id() not in LAZY_IDS]
        if len(assumptions) < 8: return assumptions
        names = [s._names(a) for a in assumptions]
        live = set(consts_of(goal)); keep = [False] * len(assumptions)
        if not live: return assumptions      # a ground goal (e.g. an unwinding assertion 'this path is infeasible'): the premises are the query
        changed = True
        while changed:
            changed = False
            for i, nm in enumerate(names):
                if not keep[i] and (nm & live):
                    keep[i] = True; live |= nm; changed = True
        return [a for a, k_ in zip(assumptions, keep) if k_]

    def _names(s, a):
        i = a.get_id()
        r = s._ncache.get(i)
        if r is None:
            r = frozenset(consts_of(a)); s._ncache[i] = (r, a); return r
        return r[0]

    def check(s, assumptions, goal, rename=None, label=''):
        """is (assumptions => goal) valid?  -> ('unsat'|'sat'|'unknown', model|None)"""
        neg = z3.Not(goal)
        g = z3.simplify(neg)
        s.last_key = None
        if z3.is_false(g):
            s.queries += 1; s.by_simplifier += 1
            return 'unsat', None
        full = list(assumptions)
        assumptions = s.slice(full, g)
        fml = z3.And(*(assumptions + [g])) if assumptions else g
        key = None
        if rename is not None:
            key = canon_key(fml, rename)
            if key in s.cache:
                s.dedup += 1
                r = s.cache[key]
                s.last_key = key
                return ('sat-dup', r[1]) if r[0] == 'sat' else r
        s.queries += 1
        s.last_key = key
        t0 = time.time()
        sol = z3.Solver()
        sol.add(fml)
        raw = z3.Solver(); raw.add(*(assumptions + [neg]))
        # portfolio order: z3 briefly; pure bit-vector queries then go to cvc5 (bit-blasting and bv-as-int in parallel: multiplier /
        # divider equivalences that z3 does not finish are closed there in well under a second); then z3 with the full budget; then cvc5
        short = min(s.timeout_s, 8)
        sol.set('timeout', int(short * 1000))
        r = sol.check()
        res = None
        tried_cvc5 = False
        if r == z3.unknown and s.use_cvc5 and s.timeout_s > short and not has_fp(fml):
            tried_cvc5 = True
            rr = cvc5_check(raw, s.timeout_s); s.cvc5_used += 1
            if rr == 'unsat': res = ('unsat', None)
        if res is None and r == z3.unknown and s.timeout_s > short:
            sol.set('timeout', int(s.timeout_s * 1000))
            r = sol.check()
        if res is not None: pass
        elif r == z3.unsat: res = ('unsat', None)
        elif r == z3.sat:
            if len(assumptions) != len(full):
                # complete the model over the assumptions that were sliced away (needed for a faithful native replay)
                sol2 = z3.Solver(); sol2.set('timeout', int(s.timeout_s * 1000)); sol2.add(*(full + [g]))
                r2 = sol2.check()
                # (completion undecided: the sliced model may not extend to the dropped premises -> undecided, never a counterexample)
                res = ('sat', sol2.model()) if r2 == z3.sat else (('unsat', None) if r2 == z3.unsat else ('unknown', None))
            else:
                res = ('sat', sol.model())
        else:
            if s.use_cvc5 and not tried_cvc5:
                rr = cvc5_check(raw, s.timeout_s)
                s.cvc5_used += 1
                if rr == 'unsat': res = ('unsat', None)
                elif rr == 'sat':
                    # cvc5 says sat: ask z3 for the model with more time (models are always replayed natively before being believed)
                    sol.set('timeout', int(s.timeout_s * 3000))
                    r2 = sol.check()
                    res = ('sat', sol.model()) if r2 == z3.sat else ('unknown', None)
            if res is None: res = ('unknown', None)
        dt = time.time() - t0; s.solver_s += dt
        s.by_search += 1
        if len(s.samples) < 3 and res[0] == 'unsat':
            txt = sol.sexpr()
            s.samples.append({'label': label, 'smt2_head': txt[:600], 'result': res[0], 'seconds': round(dt, 3)})
        if key is not None: s.cache[key] = res
        return res


def has_fp(e):
    seen = set(); st = [e]
    while st:
        x = st.pop()
        i = x.get_id()
        if i in seen: continue
        seen.add(i)
        if z3.is_fp(x) or z3.is_fprm(x): return True
        st.extend(x.children())
    return False


def cvc5_check(sol, timeout_s):
    """cvc5 CLI on the SMT-LIB export; pure bit-vector queries run twice in parallel (bit-blasting and --solve-bv-as-int=sum),
    first definite answer wins; any error output makes the answer 'error' (never a verdict)"""
    txt = '(set-logic ALL)\n' + sol.sexpr() + '\n(check-sat)\n'
    variants = [[]]
    if not ('fp.' in txt or 'to_fp' in txt or 'Float' in txt):
        variants.append(['--solve-bv-as-int=sum'])
    with tempfile.NamedTemporaryFile('w', suffix='.smt2', delete=False) as fh:
        fh.write(txt); path = fh.name
    procs = []
    try:
        for fl in variants:
            procs.append(subprocess.Popen(['cvc5', '--tlimit=%d' % int(timeout_s * 1000)] + fl + [path], stdout=subprocess.PIPE, stderr=subprocess.PIPE, text=True))
        t_end = time.time() + timeout_s + 10
        pending = list(procs); answer = 'unknown'
        while pending and time.time() < t_end:
            for p in list(pending):
                if p.poll() is None: continue
                pending.remove(p)
                out, err = p.communicate()
                first = out.strip().split('\n')[0] if out.strip() else ''
                if '(error' in out: return 'error'
                if first in ('sat', 'unsat'):
                    answer = first; pending = []; break
            time.sleep(0.02)
        return answer
    finally:
        for p in procs:
            if p.poll() is None:
                p.kill()
            try: p.communicate(timeout=2)
            except Exception: pass
        os.unlink(path)


def model_inputs(model, desc, ex=None):
    """concrete input values from a model -> {argname: list of ints | int | dict(base, bytes{off: byte}) for pointers}"""
    out = {}
    for d in desc:
        if d['kind'] == 'v':
            out[d['name']] = [model.eval(x, model_completion=True).as_long() for x in d['lanes']]
        elif d['kind'] == 'm':
            out[d['name']] = [bool(z3.is_true(model.eval(b, model_completion=True))) for b in d['bools']]
        elif d['kind'] == 'b':
            out[d['name']] = bool(z3.is_true(model.eval(d['sym'], model_completion=True)))
        elif d['kind'] in ('s', 'z', 'T'):
            out[d['name']] = model.eval(d['sym'], model_completion=True).as_long()
        elif d['kind'] == 'ptr':
            base = model.eval(d['base'], model_completion=True).as_long()
            by = {}
            if ex is not None:
                rid = d['ptr'].rid
                for (pc, addr, nb, al, rw, arid, off) in ex.accesses:
                    if arid != rid: continue
                    a = model.eval(addr, model_completion=True).as_long()
                    o = (a - base) & ((1 << 64) - 1)
                    if o >= 1 << 63: o -= 1 << 64
                    if abs(o) > 1 << 20: continue
                    for kk in range(nb):
                        by[o + kk] = model.eval(z3.Select(ex.ext0, z3.BitVecVal((a + kk) & ((1 << 64) - 1), 64)), model_completion=True).as_long()
                for o in d.get('extent', ()):   # bytes the harness wants defined even if not accessed
                    if o not in by:
                        by[o] = model.eval(z3.Select(ex.ext0, z3.BitVecVal((base + o) & ((1 << 64) - 1), 64)), model_completion=True).as_long()
            out[d['name']] = dict(base=base, bytes=by)
    return out
